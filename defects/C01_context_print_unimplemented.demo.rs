// Demonstration: MinidumpContext::print panics (unimplemented!) for PPC / PPC64 / SPARC contexts.
use minidump::format as md;
use minidump::{MinidumpContext, MinidumpRawContext};
use scroll::Pread;

#[test]
fn printing_a_ppc_context_does_not_panic() {
    let bytes = vec![0u8; 4096];
    let ppc: md::CONTEXT_PPC = bytes.pread_with(0, scroll::BE).unwrap();
    let ctx = MinidumpContext::from_raw(MinidumpRawContext::Ppc(ppc));
    let mut out = Vec::new();
    ctx.print(&mut out).unwrap();
    let sparc: md::CONTEXT_SPARC = bytes.pread_with(0, scroll::BE).unwrap();
    MinidumpContext::from_raw(MinidumpRawContext::Sparc(sparc)).print(&mut out).unwrap();
    let ppc64: md::CONTEXT_PPC64 = bytes.pread_with(0, scroll::BE).unwrap();
    MinidumpContext::from_raw(MinidumpRawContext::Ppc64(ppc64)).print(&mut out).unwrap();
}
