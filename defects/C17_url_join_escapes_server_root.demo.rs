//! Demonstration for property C17, second sentence ("joining them to ... a server URL therefore never
//! leaves that root"): leaves that pass `safe_leafname` -- no separator, not `..`, no drive prefix -- can
//! still be special to `Url::join`: `%2e%2e` is a double-dot segment of the URL standard, and `http:host`
//! (a scheme followed by a colon) is parsed as an absolute URL.  Run against a symbol server on the loopback
//! interface; place at breakpad-symbols/tests/c17_url_join.rs and run
//!   cargo test -p breakpad-symbols --features http --offline --test c17_url_join
use breakpad_symbols::SimpleModule;
use debugid::{CodeId, DebugId};
use std::str::FromStr;
const DEBUG_ID: &str = "abcd1234-abcd-1234-abcd-abcd12345678-a";
fn module(code_file: &str, debug_file: &str) -> SimpleModule {
    SimpleModule::from_basic_info(
        Some(debug_file.to_string()),
        Some(DebugId::from_str(DEBUG_ID).unwrap()),
        Some(code_file.to_string()),
        Some(CodeId::from_str("64E782C570C4000").unwrap()),
    )
}

#[cfg(feature = "http")]
mod http_supplier {
    use super::*;
    use breakpad_symbols::{HttpSymbolSupplier, SymbolSupplier};
    use std::io::{Read, Write};
    use std::net::TcpListener;
    use std::path::Path;
    use std::sync::{Arc, Mutex};
    use std::time::Duration;

    /// A symbol server that answers every GET with a tiny valid .sym file and records the
    /// request targets it saw.
    fn spawn_symbol_server() -> (u16, Arc<Mutex<Vec<String>>>) {
        let listener = TcpListener::bind("127.0.0.1:0").unwrap();
        let port = listener.local_addr().unwrap().port();
        let seen = Arc::new(Mutex::new(Vec::new()));
        let seen2 = seen.clone();
        std::thread::spawn(move || {
            for stream in listener.incoming() {
                let mut stream = match stream {
                    Ok(s) => s,
                    Err(_) => continue,
                };
                let mut req = Vec::new();
                let mut buf = [0u8; 1024];
                while !req.windows(4).any(|w| w == b"\r\n\r\n") {
                    match stream.read(&mut buf) {
                        Ok(0) | Err(_) => break,
                        Ok(n) => req.extend_from_slice(&buf[..n]),
                    }
                }
                let text = String::from_utf8_lossy(&req);
                let target = text
                    .lines()
                    .next()
                    .and_then(|l| l.split(' ').nth(1))
                    .unwrap_or("")
                    .to_string();
                seen2.lock().unwrap().push(target);
                let body = "MODULE Linux x86 ABCD1234ABCD1234ABCDABCD12345678a evil\n";
                let _ = write!(
                    stream,
                    "HTTP/1.1 200 OK\r\nContent-Type: text/plain\r\nContent-Length: {}\r\nConnection: close\r\n\r\n{}",
                    body.len(),
                    body
                );
            }
        });
        (port, seen)
    }

    fn list_dir(p: &Path) -> Vec<String> {
        let mut v: Vec<String> = std::fs::read_dir(p)
            .unwrap()
            .map(|e| e.unwrap().file_name().to_string_lossy().into_owned())
            .collect();
        v.sort();
        v
    }

    #[tokio::test]
    async fn http_supplier_stays_below_url_prefix_and_inside_cache() {
        let (port, seen) = spawn_symbol_server();
        let t = tempfile::tempdir().unwrap();
        let cache = t.path().join("cache");
        let tmp = t.path().join("tmp");
        std::fs::create_dir(&cache).unwrap();
        std::fs::create_dir(&tmp).unwrap();

        let supplier = HttpSymbolSupplier::new(
            vec![format!("http://127.0.0.1:{port}/symbols/")],
            cache.clone(),
            tmp.clone(),
            vec![],
            Duration::from_secs(10),
        );

        // An ordinary module: downloaded from below /symbols/ and cached inside `cache`.
        let good = module("good.dll", "good.pdb");
        assert!(supplier.locate_symbols(&good).await.is_ok());

        // Module names that safe_leafname lets through but Url::join treats specially.
        for name in ["%2e%2e", "%2E%2e", ".%2e"] {
            let evil = module("good.dll", name);
            let _ = supplier.locate_symbols(&evil).await;
        }
        // a scheme-like leaf: the request must not go to another origin either (it fails to connect here;
        // the check below is on what the configured server saw, the join itself is checked in the other test)
        let evil = module("good.dll", "http:other.invalid");
        let _ = supplier.locate_symbols(&evil).await;

        let seen = seen.lock().unwrap().clone();
        let stray_requests: Vec<&String> = seen
            .iter()
            .filter(|target| !target.starts_with("/symbols/"))
            .collect();
        let stray_entries: Vec<String> = list_dir(t.path())
            .into_iter()
            .filter(|e| e != "cache" && e != "tmp")
            .collect();
        assert!(
            stray_requests.is_empty() && stray_entries.is_empty(),
            "{}",
            format!(
                "requests that left the configured /symbols/ prefix: {stray_requests:?}; \
                 entries created next to (not inside) the cache directory: {stray_entries:?}"
            )
        );
    }
}
