// Demonstration for property C10 (place at breakpad-symbols/tests/, run
// `cargo test --release --offline -p breakpad-symbols --test <name> -- --nocapture`).
//
// Every line of the input is shorter than 80 KiB.  The file does not end in a newline.  Before the fix
// the whole-buffer parse returned Ok (the unterminated last line silently discarded) while every
// chunked read schedule returned Err("unexpected EOF ..."): the outcome at end of input depended on
// whether the circular buffer had already grown to MAX_BUFFER_CAPACITY, which depends on how the
// reader's chunks aligned an earlier 45 KiB and a 79 KiB line with the buffer window.
use breakpad_symbols::SymbolFile;
use std::io::Read;

struct Chunked<'a> { data: &'a [u8], pos: usize, chunk: usize }
impl<'a> Read for Chunked<'a> {
    fn read(&mut self, buf: &mut [u8]) -> std::io::Result<usize> {
        let n = buf.len().min(self.chunk).min(self.data.len() - self.pos);
        buf[..n].copy_from_slice(&self.data[self.pos..self.pos + n]);
        self.pos += n;
        Ok(n)
    }
}

fn outcome(data: &[u8], chunk: usize) -> (Result<usize, String>, usize) {
    let mut fed = 0usize;
    let r = SymbolFile::parse(Chunked { data, pos: 0, chunk }, |b| fed += b.len());
    (r.map(|s| s.publics.len()).map_err(|e| format!("{e:?}")), fed)
}

#[test]
fn unterminated_last_line_same_outcome_for_every_chunking() {
    let mut data = Vec::new();
    data.extend_from_slice(b"MODULE Linux x86 ABCDEF0123456789ABCDEF0123456789A foo\n");
    data.extend_from_slice(b"PUBLIC 100 0 ");
    data.extend(std::iter::repeat(b'b').take(45_000));
    data.push(b'\n');
    let mut addr = 0x1000;
    let start = data.len();
    while data.len() - start < 40_000 {
        data.extend_from_slice(format!("PUBLIC {:x} 0 short_symbol_name_{}\n", addr, addr).as_bytes());
        addr += 0x10;
    }
    data.extend_from_slice(format!("PUBLIC {:x} 0 ", addr).as_bytes());
    data.extend(std::iter::repeat(b'a').take(79_000));
    data.push(b'\n');
    data.extend_from_slice(b"PUBLIC ffff0 0 unterminated_tail");
    let whole = outcome(&data, usize::MAX);
    for chunk in [100usize, 997, 4096, 10_000, 65_536] {
        let o = outcome(&data, chunk);
        assert_eq!(o.0.is_ok(), whole.0.is_ok(), "chunk={chunk}: whole={whole:?} chunked={o:?}");
    }
}
