// Demonstration: MinidumpException::print indexes exception_information[i] for i < number_parameters.
use minidump::{Minidump, MinidumpException};

fn le32(v: &mut Vec<u8>, x: u32) { v.extend_from_slice(&x.to_le_bytes()); }
fn le64(v: &mut Vec<u8>, x: u64) { v.extend_from_slice(&x.to_le_bytes()); }

#[test]
fn print_with_too_many_parameters_does_not_panic() {
    let mut v = Vec::new();
    le32(&mut v, 0x504d444d); le32(&mut v, 42899); le32(&mut v, 1); le32(&mut v, 32);
    le32(&mut v, 0); le32(&mut v, 0); le64(&mut v, 0);
    // directory: ExceptionStream = 6, 168 bytes at rva 44
    le32(&mut v, 6); le32(&mut v, 168); le32(&mut v, 44);
    // MINIDUMP_EXCEPTION_STREAM
    le32(&mut v, 1); le32(&mut v, 0);
    le32(&mut v, 0xc0000005); le32(&mut v, 0); le64(&mut v, 0); le64(&mut v, 0x1000);
    le32(&mut v, 16); le32(&mut v, 0);          // number_parameters = 16 > 15
    for i in 0..15 { le64(&mut v, i); }
    le32(&mut v, 0); le32(&mut v, 0);           // thread_context
    let dump = Minidump::read(&v[..]).unwrap();
    let exc = dump.get_stream::<MinidumpException>().unwrap();
    let mut out = Vec::new();
    exc.print(&mut out, None, None).unwrap();
}
