// Demonstration for property C10 (place at breakpad-symbols/tests/, run
// `cargo test --offline -p breakpad-symbols --test <name>`).
//
// `non_space` (the os / cpu fields of a MODULE record) accepted line-ending bytes, so a MODULE record
// could extend past the end of its line.  parse_more only ever sees whole lines of the current buffer
// window, so the same bytes parsed (Ok) when both lines were in one window and failed (Err) when a
// chunk ended after the first newline.
use breakpad_symbols::SymbolFile;
use std::io::Read;
struct Chunked<'a> { data: &'a [u8], pos: usize, chunk: usize }
impl<'a> Read for Chunked<'a> {
    fn read(&mut self, buf: &mut [u8]) -> std::io::Result<usize> {
        let n = buf.len().min(self.chunk).min(self.data.len() - self.pos);
        buf[..n].copy_from_slice(&self.data[self.pos..self.pos + n]);
        self.pos += n;
        Ok(n)
    }
}
#[test]
fn module_record_across_a_newline_same_outcome_for_every_chunking() {
    let data = b"MODULE a\nb c 0123 name\nPUBLIC 1000 0 x\n";
    let whole = SymbolFile::from_bytes(data).map(|s| s.publics.len()).map_err(|e| format!("{e:?}"));
    for chunk in 1..data.len() {
        let r = SymbolFile::parse(Chunked { data, pos: 0, chunk }, |_| ()).map(|s| s.publics.len()).map_err(|e| format!("{e:?}"));
        assert_eq!(r.is_ok(), whole.is_ok(), "chunk={chunk}: whole={whole:?} chunked={r:?}");
    }
}
