// Demonstrations for two defects in the handle-descriptor object-info chain walk.
use minidump::{Minidump, MinidumpHandleDataStream};

fn le32(v: &mut Vec<u8>, x: u32) { v.extend_from_slice(&x.to_le_bytes()); }
fn le64(v: &mut Vec<u8>, x: u64) { v.extend_from_slice(&x.to_le_bytes()); }

fn dump_with_object_info(next_info_rva_self: bool, info_type: u32) -> Vec<u8> {
    let mut v = Vec::new();
    // MINIDUMP_HEADER
    le32(&mut v, 0x504d444d); le32(&mut v, 42899); le32(&mut v, 1); le32(&mut v, 32);
    le32(&mut v, 0); le32(&mut v, 0); le64(&mut v, 0);
    // MINIDUMP_DIRECTORY: HandleDataStream = 12
    let stream_rva = 44u32;
    let stream_size = 16 + 40;
    le32(&mut v, 12); le32(&mut v, stream_size); le32(&mut v, stream_rva);
    // MINIDUMP_HANDLE_DATA_STREAM
    le32(&mut v, 16); le32(&mut v, 40); le32(&mut v, 1); le32(&mut v, 0);
    // MINIDUMP_HANDLE_DESCRIPTOR_2
    let info_rva = stream_rva + stream_size;
    le64(&mut v, 1); le32(&mut v, 0); le32(&mut v, 0); le32(&mut v, 0); le32(&mut v, 0);
    le32(&mut v, 0); le32(&mut v, 0); le32(&mut v, info_rva); le32(&mut v, 0);
    // MINIDUMP_HANDLE_OBJECT_INFORMATION
    le32(&mut v, if next_info_rva_self { info_rva } else { 0 }); le32(&mut v, info_type); le32(&mut v, 12);
    v
}

#[test]
fn unknown_object_info_type_does_not_panic() {
    let bytes = dump_with_object_info(false, 0xffff);
    let dump = Minidump::read(&bytes[..]).unwrap();
    let _ = dump.get_stream::<MinidumpHandleDataStream>();
}

#[test]
fn self_referential_object_info_chain_terminates() {
    let bytes = dump_with_object_info(true, 1);
    let (tx, rx) = std::sync::mpsc::channel();
    std::thread::spawn(move || {
        let dump = Minidump::read(&bytes[..]).unwrap();
        let r = dump.get_stream::<MinidumpHandleDataStream>().map(|s| s.iter().count());
        let _ = tx.send(r.is_ok());
    });
    assert!(rx.recv_timeout(std::time::Duration::from_secs(3)).is_ok(), "reader did not terminate within 3 s");
}
