// Demonstration: LinuxProcLimits::from indexes the fields of each /proc/<pid>/limits line.
use minidump::Minidump;
use minidump_processor::LinuxProcLimits;

fn le32(v: &mut Vec<u8>, x: u32) { v.extend_from_slice(&x.to_le_bytes()); }
fn le64(v: &mut Vec<u8>, x: u64) { v.extend_from_slice(&x.to_le_bytes()); }

#[test]
fn short_limits_line_does_not_panic() {
    let text = b"Limit                     Soft Limit           Hard Limit           Units     \nMax cpu time\n";
    let mut v = Vec::new();
    le32(&mut v, 0x504d444d); le32(&mut v, 42899); le32(&mut v, 1); le32(&mut v, 32);
    le32(&mut v, 0); le32(&mut v, 0); le64(&mut v, 0);
    // MozLinuxLimits = 0x4d7a0003
    le32(&mut v, 0x4d7a0003); le32(&mut v, text.len() as u32); le32(&mut v, 44);
    v.extend_from_slice(text);
    let dump = Minidump::read(&v[..]).unwrap();
    let limits = dump.get_stream::<minidump::MinidumpLinuxProcLimits>().unwrap();
    let _ = LinuxProcLimits::from(limits);
}
