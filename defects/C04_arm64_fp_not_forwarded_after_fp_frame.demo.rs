// Demonstration for property C04 (mixed techniques per frame, recovered callee-saved registers):
// ARM64, frame 0 (context) -> frame 1 recovered by frame pointer -> frame 2 recovered by STACK CFI whose
// rules do not mention x29 (the function never touches it).  x29 is callee-saved and valid in frame 1,
// so it must be forwarded to frame 2 -- and frame 3 must then be recovered by frame pointer.
use minidump::format::CONTEXT_ARM64;
use minidump::system_info::{Cpu, Os};
use minidump::*;
use minidump_unwind::*;
use std::collections::HashMap;
use test_assembler::*;

#[tokio::test]
async fn fp_is_forwarded_through_a_cfi_frame_that_follows_a_frame_pointer_frame() {
    let modules = MinidumpModuleList::from_modules(vec![
        MinidumpModule::new(0x40000000, 0x10000, "module1"),
        MinidumpModule::new(0x50000000, 0x10000, "module2"),
    ]);
    let mut symbols = HashMap::new();
    symbols.insert(
        String::from("module2"),
        String::from("MODULE Linux arm64 0 module2\nFUNC 100 100 0 middle\nSTACK CFI INIT 100 100 .cfa: sp 32 + .ra: .cfa -8 + ^\n"),
    );

    let ra1 = 0x50000104u64; // inside `middle` (module2, has CFI)
    let ra2 = 0x40006000u64; // module1, no symbols
    let ra3 = 0x40007000u64; // module1, no symbols
    let frame0_fp = Label::new();
    let frame2_fp = Label::new();
    let frame3_fp = Label::new();
    let frame2_sp = Label::new();
    let mut stack = Section::new();
    stack.start().set_const(0x80000000);
    stack = stack
        // frame 0 (frame-pointer function): frame record {caller's x29, lr}
        .append_repeated(0, 64)
        .mark(&frame0_fp)
        .D64(&frame2_fp) // x29 of `middle` at the call == x29 of middle's caller (middle never touches x29)
        .D64(ra1)
        // frame 1 (`middle`): 32 bytes, return address at .cfa - 8
        .append_repeated(0, 24)
        .D64(ra2)
        .mark(&frame2_sp)
        // frame 2 (frame-pointer function)
        .append_repeated(0, 32)
        .mark(&frame2_fp)
        .D64(&frame3_fp)
        .D64(ra3)
        // frame 3
        .append_repeated(0, 16)
        .mark(&frame3_fp)
        .D64(0)
        .D64(0);

    let mut raw = CONTEXT_ARM64::default();
    raw.set_register("pc", 0x40005510);
    raw.set_register("lr", 0x1fe0fe10);
    raw.set_register("fp", frame0_fp.value().unwrap());
    raw.set_register("sp", stack.start().value().unwrap());

    let context = MinidumpContext { raw: MinidumpRawContext::Arm64(raw), valid: MinidumpContextValidity::All };
    let base = stack.start().value().unwrap();
    let size = stack.size();
    let bytes = stack.get_contents().unwrap();
    let stack_memory = MinidumpMemory { desc: Default::default(), base_address: base, size, bytes: &bytes, endian: scroll::LE };
    let system_info = SystemInfo { os: Os::Linux, os_version: None, os_build: None, cpu: Cpu::Arm64, cpu_info: None, cpu_microcode_version: None, cpu_count: 1 };
    let symbolizer = Symbolizer::new(string_symbol_supplier(symbols));
    let mut s = CallStack::with_context(context);
    walk_stack(0, (), &mut s, Some(UnifiedMemory::Memory(&stack_memory)), &modules, &system_info, &symbolizer).await;

    assert!(s.frames.len() >= 3, "frames: {}", s.frames.len());
    assert_eq!(s.frames[1].trust, FrameTrust::FramePointer);
    assert_eq!(s.frames[1].instruction + 4, ra1);
    assert_eq!(s.frames[2].trust, FrameTrust::CallFrameInfo);
    assert_eq!(s.frames[2].instruction + 4, ra2);
    // x29 is callee-saved, valid in frame 1 and untouched by `middle`: it is the same, valid, in frame 2
    let f2 = &s.frames[2];
    if let MinidumpRawContext::Arm64(ctx) = &f2.context.raw {
        assert_eq!(ctx.get_register("sp", &f2.context.valid), Some(frame2_sp.value().unwrap()));
        assert_eq!(ctx.get_register("fp", &f2.context.valid), Some(frame2_fp.value().unwrap()), "x29 not forwarded");
    } else {
        unreachable!()
    }
    // ... so the generated frame 3 is recovered through the frame-pointer chain
    assert_eq!(s.frames.len(), 4);
    assert_eq!(s.frames[3].trust, FrameTrust::FramePointer);
    assert_eq!(s.frames[3].instruction + 4, ra3);
}
