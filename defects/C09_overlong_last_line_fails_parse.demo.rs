use breakpad_symbols::SymbolFile;
use std::io::Read;
struct Chunked<'a> { data: &'a [u8], pos: usize, chunk: usize }
impl<'a> Read for Chunked<'a> {
    fn read(&mut self, buf: &mut [u8]) -> std::io::Result<usize> {
        let n = buf.len().min(self.chunk).min(self.data.len() - self.pos);
        buf[..n].copy_from_slice(&self.data[self.pos..self.pos + n]);
        self.pos += n;
        Ok(n)
    }
}
fn file(tail: &[u8]) -> Vec<u8> {
    let mut data = Vec::new();
    data.extend_from_slice(b"MODULE Linux x86 ABCDEF0123456789ABCDEF0123456789A foo\nPUBLIC 1000 0 first\n");
    data.extend_from_slice(b"PUBLIC 2000 0 ");
    data.extend(std::iter::repeat(b'x').take(400_000));
    data.extend_from_slice(tail);
    data
}
// C09: a single over-long line is dropped as corrupt rather than failing the parse
#[test]
fn overlong_last_line_with_newline_is_dropped() {
    let data = file(b"\n");
    for chunk in [usize::MAX, 4096, 100] {
        let r = SymbolFile::parse(Chunked { data: &data, pos: 0, chunk }, |_| ());
        assert!(r.is_ok(), "chunk={chunk}: {:?}", r.err());
        assert_eq!(r.unwrap().publics.len(), 1);
    }
}
#[test]
fn overlong_line_in_the_middle_is_dropped() {
    let data = file(b"\nPUBLIC 3000 0 last\n");
    for chunk in [usize::MAX, 4096, 100] {
        let r = SymbolFile::parse(Chunked { data: &data, pos: 0, chunk }, |_| ());
        assert!(r.is_ok(), "chunk={chunk}: {:?}", r.err());
        assert_eq!(r.unwrap().publics.len(), 2);
    }
}
