// Demonstration: a 60-byte dump whose handle-data stream announces 2^32-1 descriptors of size 0.
// `ensure_count_in_bound` accepts it (0 * n + header fits the stream), and
// `Vec::<MinidumpHandleDescriptor>::with_capacity(0xffff_ffff)` is requested before the zero-sized
// descriptor is rejected: an allocation of several hundred GB from a tiny file (the process aborts with
// "memory allocation of N bytes failed" unless the system overcommits that much).
// Place as minidump/tests/c01_handle_zero_size.rs; run: cargo test -p minidump --offline --test c01_handle_zero_size
use minidump::{Minidump, MinidumpHandleDataStream};

fn le32(v: &mut Vec<u8>, x: u32) { v.extend_from_slice(&x.to_le_bytes()); }
fn le64(v: &mut Vec<u8>, x: u64) { v.extend_from_slice(&x.to_le_bytes()); }

fn dump(size_of_descriptor: u32, number_of_descriptors: u32) -> Vec<u8> {
    let mut v = Vec::new();
    // MINIDUMP_HEADER
    le32(&mut v, 0x504d444d); le32(&mut v, 42899); le32(&mut v, 1); le32(&mut v, 32);
    le32(&mut v, 0); le32(&mut v, 0); le64(&mut v, 0);
    // MINIDUMP_DIRECTORY: HandleDataStream = 12
    le32(&mut v, 12); le32(&mut v, 16); le32(&mut v, 44);
    // MINIDUMP_HANDLE_DATA_STREAM header only
    le32(&mut v, 16); le32(&mut v, size_of_descriptor); le32(&mut v, number_of_descriptors); le32(&mut v, 0);
    v
}

#[test]
fn zero_sized_descriptors_do_not_size_an_allocation() {
    let bytes = dump(0, 0xffff_ffff);
    let d = Minidump::read(&bytes[..]).unwrap();
    // must be a clean error, not an allocation of 2^32-1 descriptors
    assert!(d.get_stream::<MinidumpHandleDataStream>().is_err());
}

#[test]
fn empty_stream_is_still_ok() {
    let bytes = dump(0, 0);
    let d = Minidump::read(&bytes[..]).unwrap();
    assert_eq!(d.get_stream::<MinidumpHandleDataStream>().unwrap().iter().count(), 0);
}
