// Demonstration: SPARC register aliases (g0..g7, o0..o7, l0..l7, i0..i7) are accepted by set_register and
// get_register_always, but memoize_register (hence register_is_valid / get_register) does not know them:
// writing a register by its alias and reading it back by the same name reports absence.
use minidump::format::CONTEXT_SPARC;
use minidump::{CpuContext, MinidumpContextValidity};

#[test]
fn sparc_alias_round_trip() {
    let mut ctx: CONTEXT_SPARC = unsafe { std::mem::zeroed() };
    assert_eq!(ctx.set_register("o6", 0x1234), Some(()));
    assert_eq!(ctx.get_register_always("o6"), 0x1234);
    assert_eq!(ctx.get_register_always("g_r14"), 0x1234, "alias and canonical name denote the same storage");
    // the alias must be readable with validity All, and must memoize to the canonical name
    assert_eq!(ctx.get_register("o6", &MinidumpContextValidity::All), Some(0x1234));
    assert_eq!(ctx.memoize_register("o6"), Some("g_r14"));
}

#[test]
fn canonical_names_unchanged() {
    let mut ctx: CONTEXT_SPARC = unsafe { std::mem::zeroed() };
    assert_eq!(ctx.set_register("g_r14", 7), Some(()));
    assert_eq!(ctx.get_register("g_r14", &MinidumpContextValidity::All), Some(7));
    assert_eq!(ctx.memoize_register("g_r14"), Some("g_r14"));
    assert_eq!(ctx.memoize_register("bogus"), None);
}
