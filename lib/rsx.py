"""Mechanical extraction of Rust items from /repo for Verus (DESIGN.md section 2.1).

A comment/string-aware tokenizer, an item locator and the closed set of edit kinds.
Nothing here rewrites executable text except through an edit declared in a .vspec file; every
edit is matched on whitespace/comment-normalised tokens and must match the declared number of
times, otherwise `LostAnchor` is raised and the unit is *undecided* (never a pass, never an alarm).
"""
import os
import re
IDENT_RE = re.compile(r'^[A-Za-z_][A-Za-z0-9_]*$')


class LostAnchor(Exception):
    pass


class Tok:
    __slots__ = ("ws", "s", "line")

    def __init__(self, ws, s, line):
        self.ws = ws      # whitespace (comments replaced by a blank) preceding the token
        self.s = s        # token text
        self.line = line  # 1-based line in the source file (0 for inserted text)

    def __repr__(self):
        return "Tok(%r)" % self.s


_IDENT = re.compile(r"[A-Za-z_][A-Za-z0-9_]*")
_NUM = re.compile(r"[0-9][A-Za-z0-9_]*(\.[0-9][A-Za-z0-9_]*)?")


def tokenize(src, line0=1):
    toks = []
    i = 0
    n = len(src)
    ws = ""
    line = line0
    while i < n:
        c = src[i]
        if c in " \t\r\n":
            if c == "\n":
                line += 1
            ws += c
            i += 1
            continue
        if src.startswith("//", i):
            j = src.find("\n", i)
            if j < 0:
                j = n
            ws += " "
            i = j
            continue
        if src.startswith("/*", i):
            depth = 1
            j = i + 2
            while j < n and depth > 0:
                if src.startswith("/*", j):
                    depth += 1
                    j += 2
                elif src.startswith("*/", j):
                    depth -= 1
                    j += 2
                else:
                    if src[j] == "\n":
                        line += 1
                        ws += "\n"
                    j += 1
            ws += " "
            i = j
            continue
        start = i
        startline = line
        # raw strings / byte strings
        m = re.match(r"(br|r)(#*)\"", src[i:i + 40])
        if m:
            hashes = m.group(2)
            close = '"' + hashes
            j = src.find(close, i + len(m.group(0)))
            if j < 0:
                raise ValueError("unterminated raw string at line %d" % line)
            j += len(close)
            line += src.count("\n", i, j)
            toks.append(Tok(ws, src[i:j], startline))
            ws = ""
            i = j
            continue
        if c == '"' or (c == "b" and i + 1 < n and src[i + 1] == '"'):
            j = i + (2 if c == "b" else 1)
            while j < n and src[j] != '"':
                if src[j] == "\\":
                    j += 1
                if j < n and src[j] == "\n":
                    line += 1
                j += 1
            j += 1
            toks.append(Tok(ws, src[i:j], startline))
            ws = ""
            i = j
            continue
        if c == "'" or (c == "b" and i + 1 < n and src[i + 1] == "'"):
            k = i + (1 if c == "b" else 0)
            # char literal or lifetime
            m = re.match(r"'(\\.[^']*|[^\\'])'", src[k:k + 16])
            if m:
                j = k + len(m.group(0))
                toks.append(Tok(ws, src[i:j], startline))
                ws = ""
                i = j
                continue
            if c == "'":
                m = _IDENT.match(src, i + 1)
                if m:
                    j = m.end()
                    toks.append(Tok(ws, src[i:j], startline))
                    ws = ""
                    i = j
                    continue
        m = _IDENT.match(src, i)
        if m:
            j = m.end()
            toks.append(Tok(ws, src[i:j], startline))
            ws = ""
            i = j
            continue
        m = _NUM.match(src, i)
        if m:
            j = m.end()
            # do not swallow `0..n` as a float
            txt = src[i:j]
            if "." in txt and src[i:j + 1].count("..") > 0:
                j = i + txt.index(".")
            toks.append(Tok(ws, src[i:j], startline))
            ws = ""
            i = j
            continue
        toks.append(Tok(ws, c, startline))
        ws = ""
        i += 1
    return toks


def render(toks):
    return "".join(t.ws + t.s for t in toks)


def texts(toks):
    return [t.s for t in toks]


OPEN = {"{": "}", "(": ")", "[": "]"}
CLOSE = {"}", ")", "]"}


def match_close(toks, i):
    """index of the bracket closing toks[i]."""
    assert toks[i].s in OPEN, toks[i]
    depth = 0
    for j in range(i, len(toks)):
        s = toks[j].s
        if s in OPEN:
            depth += 1
        elif s in CLOSE:
            depth -= 1
            if depth == 0:
                return j
    raise LostAnchor("unbalanced bracket at line %d" % toks[i].line)


def find_seq(toks, pat, start=0, end=None, depth0_only=False):
    """all start indices where the token texts `pat` occur in toks[start:end]."""
    end = len(toks) if end is None else end
    out = []
    m = len(pat)
    if m == 0:
        return out
    depth = 0
    for i in range(start, end - m + 1):
        s = toks[i].s
        ok = (not depth0_only) or depth == 0
        if ok and s == pat[0]:
            if all(toks[i + k].s == pat[k] for k in range(m)):
                out.append(i)
        if s in OPEN:
            depth += 1
        elif s in CLOSE:
            depth -= 1
    return out


def _body_open(toks, i, end):
    """first `{` after i at paren/bracket/angle-insensitive depth 0 (skips (...) and [...])."""
    j = i
    while j < end:
        s = toks[j].s
        if s == "{":
            return j
        if s in ("(", "["):
            j = match_close(toks, j)
        elif s == ";":
            return None
        j += 1
    return None


def _step_candidates(toks, step, lo, hi):
    pat = texts(tokenize(step))
    cands = []
    for i in find_seq(toks, pat, lo, hi, depth0_only=True):
        o = _body_open(toks, i + len(pat), hi)
        if o is None:
            continue
        cands.append((i, o, match_close(toks, o)))
    if pat[0] == "impl" and not cands:
        # allow `impl<...> Rest`
        rest = pat[1:]
        for i in find_seq(toks, ["impl"], lo, hi, depth0_only=True):
            j = i + 1
            if j < hi and toks[j].s == "<":
                d = 0
                while j < hi:
                    if toks[j].s == "<":
                        d += 1
                    elif toks[j].s == ">":
                        d -= 1
                        if d == 0:
                            break
                    j += 1
                j += 1
            if texts(toks[j:j + len(rest)]) == rest:
                o = _body_open(toks, j + len(rest), hi)
                if o is not None:
                    cands.append((i, o, match_close(toks, o)))
    if pat[0] == "impl":
        # `impl X` must not match `impl Tr for X` (and vice versa)
        flt = []
        for (i, o, c) in cands:
            hdr = texts(toks[i:o])
            if ("for" in hdr) == ("for" in pat):
                flt.append((i, o, c))
        cands = flt
    return cands


def locate(toks, path):
    """path: list of steps such as 'trait IntoRangeMapSafe', 'impl Module for MinidumpModule',
    'mod bitflip', 'fn memory_range'.  Each step is matched as a token sequence at brace depth 0
    of the enclosing container; the *whole path* must resolve to exactly one item (several
    `impl X` blocks may exist as long as only one contains the named fn).  Returns
    (start, open, close) token indices of the final item."""
    found = []

    def rec(k, lo, hi):
        for (i, o, c) in _step_candidates(toks, path[k], lo, hi):
            if k + 1 == len(path):
                found.append((i, o, c))
            else:
                rec(k + 1, o + 1, c)

    rec(0, 0, len(toks))
    if len(found) != 1:
        raise LostAnchor("item path %r matched %d times" % (" :: ".join(path), len(found)))
    i, o, c = found[0]
    # pull in leading qualifiers of a fn
    j = i
    while j > 0:
        p = toks[j - 1].s
        if p in ("async", "const", "unsafe", "pub"):
            j -= 1
        elif p == ")" and j >= 4 and toks[j - 4].s == "pub" and toks[j - 3].s == "(":
            j -= 4
        else:
            break
    return j, o, c


# `replace` edits rewrite the *shape* of an expression the verifier cannot take (a std call -> a stand-in with the same
# arguments, `.await` dropped, ...).  Whether the shape occurs once or three times says nothing about the property, so a
# count that differs from the declared one is logged, not fatal: occurrences that are left are either accepted by Verus
# as they are or make the unit undecided (unsupported construct).  Only edits that carry a contract stay strict.
STRICT_COUNT_KINDS = set()   # closure-contract too: a closure that is gone needs no contract; one left without contract is caught by the closure-growth rule


class Item:
    """An extracted item: a private copy of its tokens, edited in place by declared edits."""

    def __init__(self, relpath, path, toks, start, open_, close):
        self.relpath = relpath
        self.path = path
        self.toks = [Tok(t.ws, t.s, t.line) for t in toks[start:close + 1]]
        self.line = toks[start].line
        self.end_line = toks[close].line
        self.original = render(self.toks).strip()
        self.log = []
        # strip visibility: no semantic content for a single-file check
        self._strip_vis()

    def _strip_vis(self):
        t = self.toks
        if t and t[0].s == "pub":
            if len(t) > 1 and t[1].s == "(":
                c = match_close(t, 1)
                del t[0:c + 1]
            else:
                del t[0]
            self.log.append({"kind": "drop-visibility", "what": "leading `pub` removed"})

    # -- helpers -------------------------------------------------------------------------
    def body_open(self):
        i = 0
        while i < len(self.toks) and self.toks[i].s != "fn":
            i += 1
        if i >= len(self.toks):
            i = 0   # a struct / enum item: its body is the first brace group
        o = _body_open(self.toks, i, len(self.toks))
        if o is None:
            raise LostAnchor("no body for %s" % self.path)
        return o

    def loops(self):
        """indices of loop keyword tokens (`loop`, `while`, `for`) inside the body, in order.
        `for` inside `impl ... for` or HRTB cannot occur in a body in the code we extract."""
        o = self.body_open()
        out = []
        for i in range(o, len(self.toks)):
            s = self.toks[i].s
            if s in ("loop", "while", "for"):
                # exclude `for<'a>` and labels handled naturally
                if s == "for" and self.toks[i + 1].s == "<":
                    continue
                out.append(i)
        return out

    def loop_body_open(self, i):
        o = _body_open(self.toks, i + 1, len(self.toks))
        if o is None:
            raise LostAnchor("loop without body")
        return o

    # -- edit kinds ----------------------------------------------------------------------
    def replace_wild(self, kind, pat_src, rep_src, count, why=""):
        """`replace` with one wildcard: the pattern token `__1` matches a non-empty bracket-balanced run of tokens
        (shortest run after which the rest of the pattern matches, never across a `;` or an unmatched closer);
        `__1` in the replacement stands for the matched run, verbatim.  Lets an edit rewrite the *shape* of a call
        (`callback(&input[..__1])`) without naming the expression a change may touch."""
        pat = texts(tokenize(pat_src))
        w = pat.index("__1")
        pre, post = pat[:w], pat[w + 1:]
        if not pre or not post:
            raise LostAnchor("%s: the wildcard needs literal tokens on both sides" % kind)
        T = self.toks
        hits = []
        i = 0
        while i + len(pre) < len(T):
            if texts(T[i:i + len(pre)]) == pre and all(T[i + k].line != 0 for k in range(len(pre))):
                j = i + len(pre)
                d = 0
                end = None
                while j < len(T):
                    if d == 0 and j > i + len(pre) and texts(T[j:j + len(post)]) == post:
                        end = j
                        break
                    t = T[j].s
                    if t in OPEN:
                        d += 1
                    elif t in CLOSE:
                        d -= 1
                        if d < 0:
                            break
                    elif t == ";" and d == 0:
                        break
                    j += 1
                if end is not None:
                    hits.append((i, i + len(pre), end, end + len(post)))
                    i = end + len(post)
                    continue
            i += 1
        if count >= 0 and len(hits) != count and kind in STRICT_COUNT_KINDS:
            raise LostAnchor("%s: pattern `%s` matched %d times in %s, expected %d"
                             % (kind, " ".join(pat), len(hits), self.path, count))
        rep = tokenize(rep_src)
        for (a, b, c, e) in reversed(hits):
            mid = [Tok(t.ws, t.s, t.line) for t in T[b:c]]
            new = []
            for t in rep:
                if t.s == "__1":
                    m2 = [Tok(x.ws, x.s, x.line) for x in mid]
                    if m2:
                        m2[0].ws = t.ws
                    new += m2
                else:
                    new.append(Tok(t.ws, t.s, T[a].line))
            if new:
                new[0].ws = T[a].ws if T[a].ws else " "
            T[a:e] = new
        self.log.append({"kind": kind, "match": " ".join(pat), "replace": " ".join(texts(rep)),
                         "count": len(hits), "declared_count": ("any" if count < 0 else count), "why": why})

    def replace(self, kind, pat_src, rep_src, count, why=""):
        pat = texts(tokenize(pat_src))
        if not pat:
            raise LostAnchor("empty pattern in %s edit" % kind)
        if "__1" in pat:
            return self.replace_wild(kind, pat_src, rep_src, count, why)
        hits = find_seq(self.toks, pat)
        # only text that came from /repo can be replaced (inserted contract text has line 0)
        hits = [h for h in hits if all(self.toks[h + k].line != 0 for k in range(len(pat)))]
        # drop overlapping hits
        flt = []
        last = -1
        for h in hits:
            if h > last:
                flt.append(h)
                last = h + len(pat) - 1
        if count >= 0 and len(flt) != count and kind in STRICT_COUNT_KINDS:
            raise LostAnchor("%s: pattern `%s` matched %d times in %s, expected %d"
                             % (kind, " ".join(pat), len(flt), self.path, count))
        rep = tokenize(rep_src)
        for h in reversed(flt):
            ws = self.toks[h].ws
            new = [Tok(t.ws, t.s, self.toks[h].line) for t in rep]
            if new:
                new[0].ws = ws if ws else " "
            self.toks[h:h + len(pat)] = new
        self.log.append({"kind": kind, "match": " ".join(pat), "replace": " ".join(texts(rep)),
                         "count": len(flt), "declared_count": ("any" if count < 0 else count), "why": why})

    def signature(self, expect_src, new_src, why=""):
        o = self.body_open()
        cur = texts(self.toks[:o])
        exp = texts(tokenize(expect_src))
        if cur != exp:
            raise LostAnchor("signature of %s changed: `%s`" % (self.path, " ".join(cur)))
        new = tokenize(new_src)
        line = self.toks[0].line
        self.toks[:o] = [Tok(t.ws, t.s, line) for t in new]
        self.log.append({"kind": "signature", "from": " ".join(exp), "to": " ".join(texts(new)),
                         "why": why})

    def lift_block(self, anchor_src, nth, new_sig_src, why="", pre="", post=""):
        """The item becomes a new function whose body is, verbatim, the brace block that directly follows
        the nth occurrence of `anchor` inside the located function (a closure body, a loop body, an inner
        block).  Dropped: everything of the enclosing function outside that block; the variables the block
        captures become the parameters named by the declared signature (a missing/mistyped one is a compile
        error => undecided)."""
        pat = texts(tokenize(anchor_src))
        o = self.body_open()
        hits = [h for h in find_seq(self.toks, pat) if h > o]
        if len(hits) < nth or nth < 1:
            raise LostAnchor("lift-block: anchor `%s` occurs %d times in %s, wanted #%d"
                             % (" ".join(pat), len(hits), self.path, nth))
        b = hits[nth - 1] + len(pat)
        if b >= len(self.toks) or self.toks[b].s != "{":
            raise LostAnchor("lift-block: anchor `%s` in %s is not followed by a block" % (" ".join(pat), self.path))
        c = match_close(self.toks, b)
        block = self.toks[b:c + 1]
        sig = tokenize(new_sig_src)
        line = block[0].line
        for t in sig:
            t.line = line
        self.line = block[0].line
        self.end_line = block[-1].line
        block[0].ws = " "
        if pre or post:
            # the lifted group is not a statement block by itself (e.g. the arms of a `match x`): the declared
            # `pre` text is put in front of it and `post` behind it, inside a fresh function body
            w1 = tokenize("{ " + pre)
            w2 = tokenize(post + " }")
            for t in w1 + w2:
                t.line = line
            block = w1 + block + w2
        self.toks = sig + block
        self.original = render(block).strip()
        self.log.append({"kind": "lift-block", "anchor": " ".join(pat), "nth": nth,
                         "signature": " ".join(texts(sig)), "why": why, "pre": pre, "post": post,
                         "drops": "the rest of the enclosing function; captured variables become parameters"})

    def lift_stmts(self, anchor_src, nth, count, new_sig_src, post="", why=""):
        """Like lift-block, for `count` consecutive statements: the statements starting at the nth occurrence of
        `anchor` (each up to its terminating `;` at the same bracket depth) become, verbatim, the body of a new
        function with the declared signature; `post` (e.g. the tuple of the variables they define) is appended as
        the tail expression."""
        pat = texts(tokenize(anchor_src))
        o = self.body_open()
        hits = [h for h in find_seq(self.toks, pat) if h > o]
        if len(hits) < nth or nth < 1:
            raise LostAnchor("lift-stmts: anchor `%s` occurs %d times in %s, wanted #%d" % (" ".join(pat), len(hits), self.path, nth))
        h = hits[nth - 1]
        T = self.toks
        q = h
        for _s in range(count):
            d = 0
            while q < len(T):
                t = T[q].s
                if t in OPEN:
                    d += 1
                elif t in CLOSE:
                    if d == 0:
                        raise LostAnchor("lift-stmts: statement after `%s` in %s is not terminated by `;`" % (" ".join(pat), self.path))
                    d -= 1
                elif t == ";" and d == 0:
                    break
                q += 1
            q += 1
        stmts = T[h:q]
        sig = tokenize(new_sig_src)
        line = stmts[0].line
        w1 = tokenize("{")
        w2 = tokenize((post or "") + " }")
        for t in sig + w1 + w2:
            t.line = line
        self.line = stmts[0].line
        self.end_line = stmts[-1].line
        stmts[0].ws = " "
        self.toks = sig + w1 + stmts + w2
        self.original = render(stmts).strip()
        self.log.append({"kind": "lift-block", "what": "lift-stmts", "anchor": " ".join(pat), "nth": nth, "count": count,
                         "signature": " ".join(texts(sig)), "post": post, "why": why,
                         "drops": "the rest of the enclosing function; variables read become parameters"})

    def lift_closure(self, anchor_src, nth, new_sig_src, why=""):
        """The body of a closure literal passed as the (last) argument of a call becomes the body of a new
        function with the declared signature: anchor = call prefix up to and including `(` and the closure's
        `|params|`; body = everything up to the call's closing paren (expression or block), verbatim.
        Works inside macro invocations (json!{..}) too, since it is purely token based."""
        pat = texts(tokenize(anchor_src))
        o = self.body_open()
        hits = [h for h in find_seq(self.toks, pat) if h > o]
        if len(hits) < nth or nth < 1:
            raise LostAnchor("lift-closure: anchor `%s` occurs %d times in %s, wanted #%d" % (" ".join(pat), len(hits), self.path, nth))
        h = hits[nth - 1]
        T = self.toks
        open_idx = None
        for k in range(len(pat) - 1, -1, -1):
            if pat[k] == "(":
                open_idx = h + k
                break
        if open_idx is None or pat[-1] != "|":
            raise LostAnchor("lift-closure: anchor must look like `.method ( | params |`")
        close = match_close(T, open_idx)
        body = T[h + len(pat):close]
        if not body:
            raise LostAnchor("lift-closure: empty closure body")
        sig = tokenize(new_sig_src)
        line = body[0].line
        w1 = tokenize("{")
        w2 = tokenize(" }")
        for t in sig + w1 + w2:
            t.line = line
        self.line = body[0].line
        self.end_line = body[-1].line
        body[0].ws = " "
        self.toks = sig + w1 + body + w2
        self.original = render(body).strip()
        self.log.append({"kind": "lift-block", "what": "lift-closure", "anchor": " ".join(pat), "nth": nth,
                         "signature": " ".join(texts(sig)), "why": why,
                         "drops": "the rest of the enclosing function; captured variables become parameters"})

    def abstract_span(self, anchor_src, nth, tail_src, rep_src, why="", groups=1):
        """Replace `anchor` + the bracket group that directly follows it + the literal `tail` tokens by the
        replacement (a call to a declared stand-in).  Unlike `replace`, the content of the group is not
        spelled out in the spec, so edits inside it do not lose the anchor -- and are not checked by this
        unit (the log says so)."""
        pat = texts(tokenize(anchor_src))
        hits = [h for h in find_seq(self.toks, pat) if all(self.toks[h + k].line != 0 for k in range(len(pat)))]
        if len(hits) < nth or nth < 1:
            raise LostAnchor("abstract-span: anchor `%s` occurs %d times in %s, wanted #%d"
                             % (" ".join(pat), len(hits), self.path, nth))
        h = hits[nth - 1]
        b = h + len(pat)
        if b >= len(self.toks) or self.toks[b].s not in ("(", "{", "["):
            raise LostAnchor("abstract-span: anchor `%s` in %s is not followed by a bracket group" % (" ".join(pat), self.path))
        c = match_close(self.toks, b)
        for _g in range(groups - 1):
            if c + 1 >= len(self.toks) or self.toks[c + 1].s not in ("(", "{", "["):
                raise LostAnchor("abstract-span: expected %d bracket groups after `%s` in %s" % (groups, " ".join(pat), self.path))
            c = match_close(self.toks, c + 1)
        tail = texts(tokenize(tail_src)) if tail_src else []
        if texts(self.toks[c + 1:c + 1 + len(tail)]) != tail:
            raise LostAnchor("abstract-span: group after `%s` in %s is not followed by `%s`"
                             % (" ".join(pat), self.path, " ".join(tail)))
        e = c + 1 + len(tail)
        rep = tokenize(rep_src)
        line = self.toks[h].line
        ws = self.toks[h].ws
        new = [Tok(t.ws, t.s, line) for t in rep]
        if new:
            new[0].ws = ws if ws else " "
        inner = render(self.toks[b:c + 1]).strip()
        import hashlib
        span_sha = hashlib.sha256(" ".join(texts(self.toks[b:c + 1])).encode()).hexdigest()[:12]
        self.toks[h:e] = new
        self.log.append({"kind": "abstract-span", "anchor": " ".join(pat), "nth": nth, "tail": " ".join(tail),
                         "replace": " ".join(texts(rep)), "why": why, "span_sha": span_sha,
                         "drops": "%d characters of code inside the group are not checked by this unit" % len(inner)})

    def rename_ident(self, old, new, why=""):
        """alpha-renaming of one identifier in the body (e.g. `self` -> `this` when a by-value `mut self`
        receiver is turned into an ordinary `mut` parameter by the signature edit)."""
        o = self.body_open()
        n = 0
        for t in self.toks[o:]:
            if t.s == old and t.line != 0:
                t.s = new
                n += 1
        # nothing to rename is fine (a body that no longer mentions the identifier needs no renaming)
        self.log.append({"kind": "rename", "from": old, "to": new, "count": n, "why": why})

    def enum_eq(self, prefix_src, count, why="", call=None, exact_rhs=False):
        """`LHS == Prefix::Variant` / `LHS != Prefix::Variant` (derived PartialEq on a field-less enum) becomes
        `matches!(LHS, Prefix::Variant)` / `!matches!(..)` for every comparison whose right-hand side is a path
        starting with `prefix`.  The variant name is NOT part of the anchor, so changing it stays decidable.
        LHS extends left to the nearest `if while ( , { ; = && || return =>` at the same bracket depth.
        (The tokenizer yields one token per punctuation character: `==` is `=`,`=` with no space between.)"""
        pre = texts(tokenize(prefix_src))
        T = self.toks
        stops = {"if", "while", ",", ";", "return"}
        n = 0
        i = len(T) - 1
        while i >= 1:
            if (T[i].s == "=" and T[i].ws == "" and T[i - 1].s in ("=", "!") and T[i].line != 0
                    and texts(T[i + 1:i + 1 + len(pre)]) == pre
                    and not (T[i - 1].s == "=" and i >= 2 and T[i - 2].s in ("=", "<", ">", "!") and T[i - 1].ws == "")):
                j = i + 1 + len(pre)
                if exact_rhs:
                    end = j          # the right-hand side is exactly the given token sequence
                else:
                    if j >= len(T) or not _IDENT.fullmatch(T[j].s):
                        i -= 1
                        continue
                    end = j + 1
                op = i - 1          # first char of the operator
                k = op - 1
                d = 0
                while k >= 0:
                    t = T[k].s
                    if t in CLOSE:
                        d += 1
                    elif t in OPEN:
                        if d == 0:
                            break
                        d -= 1
                    elif d == 0 and (t in stops or (t in ("&", "|") and k >= 1 and T[k - 1].s == t and T[k].ws == "")
                                     or (t == "=" and not (k >= 1 and T[k - 1].s in ("=", "!", "<", ">") and T[k].ws == ""))
                                     or (t == ">" and k >= 1 and T[k - 1].s == "=" and T[k].ws == "")):
                        break
                    k -= 1
                start = k + 1
                line = T[i].line
                neg = T[op].s == "!"
                lhs = T[start:op]
                rhs = T[i + 1:end]
                if not lhs:
                    raise LostAnchor("enum-eq: empty left-hand side in %s" % self.path)
                if call:
                    # value equality through a declared stand-in: call(&LHS, &RHS)
                    head = tokenize(("!" if neg else "") + call + "(&")
                    mid = [Tok("", ",", line), Tok(" ", "&", line)]
                else:
                    head = tokenize(("!" if neg else "") + "matches!(")
                    mid = [Tok("", ",", line)]
                for t in head:
                    t.line = line
                head[0].ws = lhs[0].ws if lhs[0].ws else " "
                lhs[0].ws = ""
                T[start:end] = head + lhs + mid + rhs + [Tok("", ")", line)]
                n += 1
                i = start
            i -= 1
        if count >= 0 and n != count:
            raise LostAnchor("enum-eq: %d comparisons against `%s..` in %s, expected %d" % (n, " ".join(pre), self.path, count))
        self.log.append({"kind": "abstract-op", "what": "enum-eq", "prefix": " ".join(pre), "count": n, "via": call or "matches!",
                         "why": why or "derived PartialEq on a field-less enum is variant equality"})

    def drop_attrs(self, why=""):
        """delete every `#[...]` attribute inside the item (field attributes of derive helper crates such as
        `#[default(..)]`, doc attributes).  Attributes carry no layout or value information used here."""
        T = self.toks
        i = 0
        n = 0
        while i < len(T) - 1:
            if T[i].s == "#" and T[i + 1].s == "[":
                c = match_close(T, i + 1)
                del T[i:c + 1]
                n += 1
                continue
            i += 1
        self.log.append({"kind": "drop-attrs", "count": n, "why": why or "attributes of derive helper crates"})

    def formats(self, expect, fn="ext_format"):
        """`format!(FMT, a, b)` ==> `ext_format(FMT, (a, b,))`: the format string literal and the argument
        expressions are kept (still evaluated, so their obligations remain); the rendering itself is an
        uninterpreted function of (format string, arguments)."""
        n = 0
        i = 0
        while i < len(self.toks) - 2:
            t = self.toks[i]
            if t.s == "format" and self.toks[i + 1].s == "!" and self.toks[i + 2].s == "(" and t.line != 0:
                c = match_close(self.toks, i + 2)
                parts = []
                cur = []
                d = 0
                for q in range(i + 3, c):
                    x = self.toks[q].s
                    if x in OPEN:
                        d += 1
                    elif x in CLOSE:
                        d -= 1
                    if x == "," and d == 0:
                        parts.append(cur)
                        cur = []
                    else:
                        cur.append(self.toks[q])
                if cur:
                    parts.append(cur)
                fmt = render(parts[0]).strip()
                rest = [render(p_).strip() for p_ in parts[1:]]
                fmt, rest = canon_format(fmt, rest)
                new = tokenize("%s(%s, (%s))" % (fn, fmt, "".join(r + ", " for r in rest)))
                for z in new:
                    z.line = t.line
                new[0].ws = t.ws
                self.toks[i:c + 1] = new
                n += 1
                i += len(new)
                continue
            i += 1
        if expect >= 0 and n != expect:
            raise LostAnchor("formats: found %d format! calls in %s, expected %d" % (n, self.path, expect))
        self.log.append({"kind": "sink", "what": "formats", "count": n,
                         "why": "string rendering is an uninterpreted function of the format literal and the argument values"})

    def closure_annotate(self, anchor_src, nth, params_src, spec_src, why=""):
        """`CALL(|p| BODY)` -> `CALL(|PARAMS| -> SPEC { BODY })`: the anchor is the call prefix up to and
        including the opening `(` and the closure's `|...|` parameter list; the body is NOT part of the anchor
        and is kept verbatim (so a changed body reaches the verifier instead of losing the anchor)."""
        pat = texts(tokenize(anchor_src))
        hits = [h for h in find_seq(self.toks, pat) if all(self.toks[h + k].line != 0 for k in range(len(pat)))]
        if len(hits) < nth or nth < 1:
            raise LostAnchor("closure-annotate: anchor `%s` occurs %d times in %s, wanted #%d"
                             % (" ".join(pat), len(hits), self.path, nth))
        h = hits[nth - 1]
        T = self.toks
        # the `(` that opens the call is the last `(` of the anchor at depth 0 of the anchor text
        open_idx = None
        for k in range(len(pat) - 1, -1, -1):
            if pat[k] == "(":
                open_idx = h + k
                break
        if open_idx is None or pat[-1] != "|":
            raise LostAnchor("closure-annotate: anchor must look like `.method ( | params |`")
        close = match_close(T, open_idx)
        # parameter list: from the first `|` after open_idx to the anchor's last token
        bar1 = open_idx + 1
        if T[bar1].s == "move":
            bar1 += 1
        bar2 = h + len(pat) - 1
        body = T[bar2 + 1:close]
        if not body:
            raise LostAnchor("closure-annotate: empty closure body")
        line = T[h].line
        def sc(txt):
            ts = tokenize(txt)
            for t in ts:
                t.line = line
            return ts
        is_block = body[0].s == "{" and match_close(T, bar2 + 1) == close - 1
        newparams = sc(params_src)
        spec = sc(" -> " + spec_src + " ")
        if is_block:
            newbody = body
        else:
            newbody = sc("{") + body + sc(" }")
        T[bar1 + 1:close] = newparams + sc("|") + spec + newbody
        self.log.append({"kind": "closure-contract", "what": "closure-annotate", "anchor": " ".join(pat), "nth": nth,
                         "params": params_src, "spec": spec_src, "why": why or "type annotation + ghost ensures; body verbatim"})

    def insert_at_signature(self, text):
        o = self.body_open()
        ins = tokenize("\n" + text + "\n")
        for t in ins:
            t.line = 0
        if ins:
            ins[0].ws = "\n    "
        self.toks[o:o] = ins
        self.toks[o + len(ins)].ws = "\n"
        self.log.append({"kind": "contract", "at": "signature", "text": text.strip()})

    def name_return(self, name):
        """`-> T` becomes `-> (name: T)` (ghost naming of the result only)."""
        o = self.body_open()
        # find `->` at depth 0 after params
        i = 0
        while self.toks[i].s != "fn":
            i += 1
        while self.toks[i].s != "(":
            i += 1
        c = match_close(self.toks, i)
        j = c + 1
        if not (self.toks[j].s == "-" and self.toks[j + 1].s == ">"):
            raise LostAnchor("no return type to name in %s" % self.path)
        k = j + 2
        # return type ends at `where` (depth 0) or body open
        end = o
        d = 0
        for q in range(k, o):
            s = self.toks[q].s
            if s in ("(", "[", "<"):
                d += 1
            elif s in (")", "]"):
                d -= 1
            elif s == ">" and self.toks[q - 1].s != "-":
                d -= 1
            elif s == "where" and d == 0:
                end = q
                break
        line = self.toks[k].line
        self.toks.insert(end, Tok("", ")", line))
        self.toks[k:k] = [Tok(" ", "(", line), Tok("", name, line), Tok("", ":", line)]
        self.log.append({"kind": "contract", "at": "return-name", "text": name})

    def insert_at_loop(self, k, text):
        ls = self.loops()
        if k < 1 or k > len(ls):
            raise LostAnchor("loop ordinal %d not found in %s (has %d loops)" % (k, self.path, len(ls)))
        o = self.loop_body_open(ls[k - 1])
        ins = tokenize("\n" + text + "\n")
        for t in ins:
            t.line = 0
        self.toks[o:o] = ins
        self.toks[o + len(ins)].ws = "\n"
        self.log.append({"kind": "contract", "at": "loop:%d" % k, "text": text.strip()})

    def insert_at_loop_end(self, k, text):
        ls = self.loops()
        if k < 1 or k > len(ls):
            raise LostAnchor("loop ordinal %d not found in %s" % (k, self.path))
        o = self.loop_body_open(ls[k - 1])
        c = match_close(self.toks, o)
        ins = tokenize("\n" + text + "\n")
        for t in ins:
            t.line = 0
        # the body may end in a tail expression without `;` (e.g. an if/else chain): that is
        # still a statement position for a following proof block only if it is unit-typed and
        # block-like, which holds for every loop body (a loop body has type ())
        self.toks[c:c] = ins
        self.toks[c + len(ins)].ws = "\n"
        self.log.append({"kind": "contract", "at": "loop-end:%d" % k, "text": text.strip()})

    def inline_helpers(self, repo, names, steps=None):
        """Calls `NAME(args)` to a free function NAME of the same source file -- one the unit does not know (a helper a
        change introduced) -- are replaced by the helper's body as a block expression:
            { let __h1 = a1; let __h2 = a2; let p1: T1 = __h1; let p2: T2 = __h2; { body } }
        Only for helpers without generics, `self`, `return` or `?` (an early exit inside a block would leave the CALLER),
        with plain `name: Type` parameters and no recursion.  Evaluating the arguments first and binding them under the
        parameter names with the declared types is what a call does; nothing else of the helper is assumed."""
        try:
            ftoks = tokenize(open(resolve_source(repo, self.relpath), encoding="utf-8").read())
        except (OSError, LostAnchor):
            return 0
        done = 0
        for name in names:
            in_impl = False
            st = None
            if steps and len(steps) > 1:
                # a method / associated function of the same impl block as the item (`self.name(..)` / `Self::name(..)`)
                try:
                    st, o, c = locate(ftoks, list(steps[:-1]) + ["fn " + name])
                    in_impl = True
                except LostAnchor:
                    st = None
            if st is None:
                try:
                    st, o, c = locate(ftoks, ["fn " + name])
                except LostAnchor:
                    # anywhere in the file (e.g. another impl block of the same type), if the name is unique there
                    occ = [q for q in range(len(ftoks) - 1) if ftoks[q].s == "fn" and ftoks[q + 1].s == name]
                    if len(occ) != 1:
                        continue
                    st = occ[0]
                    o = _body_open(ftoks, st, len(ftoks))
                    if o is None:
                        continue
                    c = match_close(ftoks, o)
                    in_impl = True
            # the type of the impl block the helper lives in (to spell out `Self` in the inlined body)
            self_ty = None
            stack = []
            for q in range(0, st):
                if ftoks[q].s == "{":
                    # header = tokens back to the previous `;`, `}` or `{`
                    hq = q - 1
                    while hq >= 0 and ftoks[hq].s not in (";", "}", "{"):
                        hq -= 1
                    stack.append(texts(ftoks[hq + 1:q]))
                elif ftoks[q].s == "}" and stack:
                    stack.pop()
            for hdr in reversed(stack):
                if "impl" in hdr:
                    h2 = hdr[hdr.index("impl") + 1:]
                    if "for" in h2:
                        h2 = h2[h2.index("for") + 1:]
                    if "where" in h2:
                        h2 = h2[:h2.index("where")]
                    if h2 and "<" not in h2 and len(h2) <= 5:
                        self_ty = "".join(h2)
                    break
            # signature tokens: fn NAME ( params ) [-> T] {
            k = st
            while ftoks[k].s != "fn":
                k += 1
            if ftoks[k + 2].s != "(":
                continue          # generics
            pc = match_close(ftoks, k + 2)
            ptoks = ftoks[k + 3:pc]
            body = ftoks[o:c + 1]
            btxt = texts(body)
            if "return" in btxt or "?" in btxt or "await" in btxt or any(btxt[i] == name and btxt[i + 1] == "(" for i in range(len(btxt) - 1)):
                continue
            # split parameters at depth-0 commas (tracking <> as well)
            params = []
            cur = []
            d = 0
            ang = 0
            ok = True
            for i, t in enumerate(ptoks):
                if t.s in OPEN:
                    d += 1
                elif t.s in CLOSE:
                    d -= 1
                elif t.s == "<":
                    ang += 1
                elif t.s == ">" and not (i > 0 and ptoks[i - 1].s in ("-", "=")):
                    ang -= 1
                if t.s == "," and d == 0 and ang == 0:
                    params.append(cur)
                    cur = []
                else:
                    cur.append(t)
            if cur:
                params.append(cur)
            plist = []
            has_self = False
            self_kind = None
            if params and texts(params[0]) and texts(params[0])[-1] == "self" and all(x in ("&", "mut", "self") or x.startswith("'") for x in texts(params[0])):
                if not in_impl:
                    continue
                p0 = [x for x in texts(params[0]) if not x.startswith("'")]
                self_kind = "&mut" if p0[:2] == ["&", "mut"] else ("&" if p0[:1] == ["&"] else "value")
                has_self = True
                params = params[1:]
            for pr in params:
                tx = texts(pr)
                mut = False
                if tx and tx[0] == "mut":
                    mut = True
                    tx = tx[1:]
                    pr = pr[1:]
                if len(tx) < 3 or tx[1] != ":" or not IDENT_RE.fullmatch(tx[0]) or tx[0] == "self":
                    ok = False
                    break
                plist.append((mut, tx[0], render(pr[2:]).strip()))
            if not ok:
                continue
            # call sites in this item
            T = self.toks
            i = len(T) - 2
            while i >= 1:
                hit = False
                start = i
                if T[i].s == name and T[i + 1].s == "(" and T[i].line != 0:
                    recv = None
                    if has_self:
                        # receiver `self` (body used as it is) or a plain local `x.name(..)` (bound to a fresh name that
                        # replaces `self` in the helper's body); longer receiver expressions are not inlined
                        hit = i >= 2 and T[i - 1].s == "." and IDENT_RE.fullmatch(T[i - 2].s or "") is not None and (i < 3 or T[i - 3].s not in (".", ":"))
                        if hit and T[i - 2].s != "self":
                            recv = T[i - 2].s
                        if hit and T[i - 2].s == "self" and self_kind == "value":
                            hit = False
                        start = i - 2
                    elif in_impl:
                        hit = i >= 3 and T[i - 1].s == ":" and T[i - 2].s == ":" and T[i - 3].s == "Self"
                        start = i - 3
                    else:
                        hit = T[i - 1].s not in (".", ":", "fn")
                if hit:
                    ac = match_close(T, i + 1)
                    args = []
                    cur = []
                    d = 0
                    for t in T[i + 2:ac]:
                        if t.s in OPEN:
                            d += 1
                        elif t.s in CLOSE:
                            d -= 1
                        if t.s == "," and d == 0:
                            args.append(cur)
                            cur = []
                        else:
                            cur.append(t)
                    if cur:
                        args.append(cur)
                    if len(args) != len(plist):
                        i -= 1
                        continue
                    line = T[i].line
                    new = [Tok(" ", "{", line)]
                    for n, a in enumerate(args):
                        new += [Tok(" ", "let", line), Tok(" ", "__h%d" % (n + 1), line), Tok(" ", "=", line)] + [Tok((t.ws or " ") if j == 0 else t.ws, t.s, t.line) for j, t in enumerate(a)] + [Tok("", ";", line)]
                    for n, (mut, pn, ty) in enumerate(plist):
                        new += tokenize(" let %s%s: %s = __h%d;" % ("mut " if mut else "", pn, ty, n + 1), line0=line)
                    btoks = [Tok((t.ws or " ") if j == 0 else t.ws, t.s, t.line) for j, t in enumerate(body)]
                    if self_ty:
                        for bt in btoks:
                            if bt.s == "Self":
                                bt.s = self_ty
                    if recv is not None:
                        pre_ = {"&": "&", "&mut": "&mut ", "value": ""}[self_kind]
                        new += tokenize(" let __hs = %s%s;" % (pre_, recv), line0=line)
                        for bt in btoks:
                            if bt.s == "self":
                                bt.s = "__hs"
                    new += btoks + [Tok(" ", "}", line)]
                    new[0].ws = T[start].ws or " "
                    T[start:ac + 1] = new
                    i = start
                    done += 1
                i -= 1
            if done:
                self.log.append({"kind": "inline-helper", "name": name, "calls": done,
                                 "why": "call to a free function of the same file that the unit does not know (introduced by a change): replaced by its body "
                                        "with the arguments bound to the parameter names (no `return` / `?` / generics in the helper)"})
        return done

    def normalise_wild_closure_params(self):
        """`|_| e` -> `|_e| e` (after the declared edits): Verus rejects `_` as a closure parameter; naming an unused
        parameter is an identity of the language.  Keeps a change that introduces such a closure decidable."""
        T = self.toks
        n = 0
        for i in range(1, len(T) - 2):
            if T[i].s == "|" and T[i + 1].s == "_" and T[i + 2].s == "|" and T[i - 1].s in _CLOSURE_PREV:
                T[i + 1].s = "_e"
                n += 1
        if n:
            self.log.append({"kind": "pattern-norm", "match": "| _ |", "replace": "| _e |", "count": n,
                             "why": "Verus rejects `_` as a closure parameter; an unused parameter is named"})

    def prepend_stmts(self, text, kind="auto-let"):
        """source statements (immutable `let`s of the enclosing function a lifted block refers to) at the start of the body"""
        o = self.body_open()
        ins = tokenize("\n" + text + "\n", line0=self.line)
        self.toks[o + 1:o + 1] = ins
        if kind != "auto-let":
            self.log.append({"kind": kind, "at": "body-start", "text": text.strip()})
            return
        self.log.append({"kind": "auto-let", "text": text.strip(),
                         "why": "the lifted block refers to an immutable local of the enclosing function that is not a declared parameter; "
                                "its `let` statement is copied in front of the block (re-evaluated at block entry: assumes a pure initializer)"})

    def insert_after_loop(self, k, text):
        """insert right after the closing brace of loop k (a statement position: a loop used as a statement)"""
        ls = self.loops()
        if k < 1 or k > len(ls):
            raise LostAnchor("loop ordinal %d not found in %s" % (k, self.path))
        o = self.loop_body_open(ls[k - 1])
        c = match_close(self.toks, o) + 1
        ins = tokenize("\n" + text + "\n")
        for t in ins:
            t.line = 0
        self.toks[c:c] = ins
        if c + len(ins) < len(self.toks) and not self.toks[c + len(ins)].ws:
            self.toks[c + len(ins)].ws = "\n"
        self.log.append({"kind": "contract", "at": "after-loop:%d" % k, "text": text.strip()})

    def insert_after_stmt(self, anchor_src, nth, text):
        """insert after the `;` that ends the statement containing the nth occurrence of anchor"""
        pat = texts(tokenize(anchor_src))
        # anchors are code tokens (from /repo or produced by an earlier code edit), never contract text
        hits = [h for h in find_seq(self.toks, pat) if all(self.toks[h + k].line != 0 for k in range(len(pat)))]
        if nth < 1 or nth > len(hits):
            raise LostAnchor("anchor `%s` #%d not found in %s (%d hits)"
                             % (" ".join(pat), nth, self.path, len(hits)))
        j = hits[nth - 1]
        d = 0
        while j < len(self.toks):
            t = self.toks[j].s
            if t in OPEN:
                d += 1
            elif t in CLOSE:
                d -= 1
                if d < 0:
                    raise LostAnchor("statement with anchor `%s` #%d is a tail expression" % (" ".join(pat), nth))
            elif t == ";" and d == 0:
                break
            j += 1
        h = j + 1
        ins = tokenize("\n" + text + "\n")
        for t in ins:
            t.line = 0
        self.toks[h:h] = ins
        if h + len(ins) < len(self.toks) and not self.toks[h + len(ins)].ws:
            self.toks[h + len(ins)].ws = "\n"
        self.log.append({"kind": "contract", "at": "after-stmt:" + " ".join(pat) + "#%d" % nth,
                         "text": text.strip()})

    def insert_before(self, anchor_src, nth, text, after=False):
        pat = texts(tokenize(anchor_src))
        hits = [h for h in find_seq(self.toks, pat) if all(self.toks[h + k].line != 0 for k in range(len(pat)))]
        if nth < 1 or nth > len(hits):
            raise LostAnchor("anchor `%s` #%d not found in %s (%d hits)"
                             % (" ".join(pat), nth, self.path, len(hits)))
        h = hits[nth - 1]
        if after:
            h = h + len(pat)
        ins = tokenize("\n" + text + "\n")
        for t in ins:
            t.line = 0
        self.toks[h:h] = ins
        if h + len(ins) < len(self.toks) and not self.toks[h + len(ins)].ws:
            self.toks[h + len(ins)].ws = "\n"
        self.log.append({"kind": "contract", "at": ("after:" if after else "before:") + " ".join(pat)
                         + "#%d" % nth, "text": text.strip()})

    def desugar_for(self, k, itname, label=None):
        """for P in E { B }  ==>  let mut it = E'; loop { let P = match it.next() { Some(__x) => __x,
        None => break }; B }   where E' is E if E already ends in .into_iter()/.iter(), else
        (E).into_iter().  `k` is the loop ordinal (counting loop/while/for in source order)."""
        ls = self.loops()
        if k < 1 or k > len(ls) or self.toks[ls[k - 1]].s != "for":
            raise LostAnchor("loop ordinal %d is not a `for` in %s" % (k, self.path))
        f = ls[k - 1]
        o = self.loop_body_open(f)
        # split P in E
        d = 0
        in_at = None
        for q in range(f + 1, o):
            s = self.toks[q].s
            if s in OPEN:
                d += 1
            elif s in CLOSE:
                d -= 1
            elif s == "in" and d == 0:
                in_at = q
                break
        if in_at is None:
            raise LostAnchor("for without in")
        P = render(self.toks[f + 1:in_at]).strip()
        E = render(self.toks[in_at + 1:o]).strip()
        et = texts(self.toks[in_at + 1:o])
        if et[-3:] == ["into_iter", "(", ")"] or et[-3:] == ["iter", "(", ")"]:
            init = E
        else:
            init = "(%s).into_iter()" % E
        line = self.toks[f].line
        head = tokenize("let mut %s = %s;\n loop" % (itname, init))
        first = tokenize("\n let %s = match %s.next() { Some(__x) => __x, None => break };\n" % (P, itname))
        for t in head + first:
            t.line = line
        head[0].ws = self.toks[f].ws
        # insert the first statement after the body's `{`
        self.toks[o + 1:o + 1] = first
        self.toks[f:o] = head
        self.log.append({"kind": "desugar-for", "loop": k, "pattern": P, "iter": E,
                         "why": "rustc's own desugaring; Verus `for` cannot contain `continue`"})

    def desugar_for_indexed(self, k, ivar=None):
        """for (I, &C) in SRC.iter().enumerate()[.rev()] { B }   ==>
             forward:  let mut __ik: usize = 0; while __ik < (SRC).len() { let I = __ik; let C = (SRC)[I]; __ik = __ik + 1; B }
             reverse:  let mut __ik: usize = (SRC).len(); while __ik > 0 { __ik = __ik - 1; let I = __ik; let C = (SRC)[I]; B }
        (`(I, C)` without `&` binds C to `&(SRC)[I]`).  This is what enumerate (and its double-ended rev) yield for a slice,
        element by element; `break` / `continue` keep their meaning because the counter is advanced before B.
        Verus has no specification for Enumerate / Rev."""
        ls = self.loops()
        if k < 1 or k > len(ls) or self.toks[ls[k - 1]].s != "for":
            raise LostAnchor("loop ordinal %d is not a `for` in %s" % (k, self.path))
        f = ls[k - 1]
        o = self.loop_body_open(f)
        T = self.toks
        hdr = texts(T[f + 1:o])
        # ( I , [&] C ) in SRC . iter ( ) . enumerate ( ) [ . rev ( ) ]
        if hdr[0] != "(" or hdr[2] != ",":
            raise LostAnchor("desugar-for-indexed: loop %d of %s is not `for (i, x) in ..`" % (k, self.path))
        I = hdr[1]
        j = 3
        byval = False
        if hdr[j] == "&":
            byval = True
            j += 1
        C = hdr[j]
        if hdr[j + 1] != ")" or hdr[j + 2] != "in":
            raise LostAnchor("desugar-for-indexed: unsupported pattern in loop %d of %s" % (k, self.path))
        rest = hdr[j + 3:]
        reverse = False
        if rest[-4:] == [".", "rev", "(", ")"]:
            reverse = True
            rest = rest[:-4]
        if rest[-8:] != [".", "iter", "(", ")", ".", "enumerate", "(", ")"]:
            raise LostAnchor("desugar-for-indexed: loop %d of %s does not iterate `SRC.iter().enumerate()`" % (k, self.path))
        nsrc = len(rest) - 8
        src_toks = T[f + 1 + j + 3:f + 1 + j + 3 + nsrc]
        SRC = render(src_toks).strip()
        cnt = ivar or ("__i%d" % k)
        line = T[f].line
        elem = ("(%s)[%s]" if byval else "&(%s)[%s]") % (SRC, I)
        if reverse:
            head = tokenize("let mut %s: usize = (%s).len();\n while %s > 0" % (cnt, SRC, cnt))
            first = tokenize("\n %s = %s - 1; let %s = %s; let %s = %s;\n" % (cnt, cnt, I, cnt, C, elem))
        else:
            head = tokenize("let mut %s: usize = 0;\n while %s < (%s).len()" % (cnt, cnt, SRC))
            first = tokenize("\n let %s = %s; let %s = %s; %s = %s + 1;\n" % (I, cnt, C, elem, cnt, cnt))
        for t in head + first:
            t.line = line
        head[0].ws = T[f].ws
        self.toks[o + 1:o + 1] = first
        self.toks[f:o] = head
        self.log.append({"kind": "desugar-for-indexed", "loop": k, "source": SRC, "reverse": reverse, "counter": cnt,
                         "why": "element-by-element meaning of slice.iter().enumerate()[.rev()]; Verus has no Enumerate/Rev specification"})

    ITER_ADAPTERS = ("filter", "map", "filter_map", "skip_while", "take_while", "enumerate", "copied", "cloned", "skip")

    def desugar_iter_chain(self, anchor_src, nth, elem, out="__out", call=None):
        """SRC.a1(c1).a2(c2)...[.collect()]  ==>  { let mut out: Vec<ELEM> = Vec::new(); for __x0 in SRC { .. } out }
        where every adapter (filter, map, filter_map, skip_while, take_while, enumerate) becomes its
        std-documented per-element step with the closure body inlined verbatim (closure parameters become
        `let PAT = [&]x;` in a block of their own).  `anchor` is the source expression SRC.  Dropped:
        laziness (all closures here are pure) and the concrete iterator type (the value is a Vec)."""
        pat = texts(tokenize(anchor_src))
        hits = [h for h in find_seq(self.toks, pat) if all(self.toks[h + k].line != 0 for k in range(len(pat)))]
        if len(hits) < nth or nth < 1:
            raise LostAnchor("desugar-iter-chain: source `%s` occurs %d times in %s, wanted #%d"
                             % (" ".join(pat), len(hits), self.path, nth))
        h = hits[nth - 1]
        pos = h + len(pat)
        T = self.toks
        stages = []
        reverse = False
        if texts(T[pos:pos + 4]) == [".", "rev", "(", ")"]:
            # SRC must be `BASE.iter()` of an indexable BASE (Vec / slice): traversal by decreasing index
            if pat[-4:] != [".", "iter", "(", ")"]:
                raise LostAnchor("desugar-iter-chain: .rev() is only desugared directly after `BASE.iter()` in %s" % self.path)
            reverse = True
            pos += 4
        while pos + 2 < len(T) and T[pos].s == "." and T[pos + 1].s in self.ITER_ADAPTERS and T[pos + 2].s == "(":
            name = T[pos + 1].s
            c = match_close(T, pos + 2)
            a = pos + 3
            if name in ("enumerate", "copied", "cloned"):
                if a != c:
                    raise LostAnchor("desugar-iter-chain: %s with arguments" % name)
                stages.append((name, None, None))
            elif name == "skip":
                # skip(EXPR): the first EXPR items that reach this stage are dropped
                stages.append((name, None, T[a:c]))
            else:
                if T[a].s == "move":
                    a += 1
                if T[a].s != "|":
                    raise LostAnchor("desugar-iter-chain: argument of .%s(..) in %s is not a closure literal" % (name, self.path))
                b = a + 1
                d = 0
                while b < c and not (T[b].s == "|" and d == 0):
                    if T[b].s in OPEN:
                        d += 1
                    elif T[b].s in CLOSE:
                        d -= 1
                    b += 1
                if b >= c:
                    raise LostAnchor("desugar-iter-chain: unterminated closure parameter list")
                stages.append((name, T[a + 1:b], T[b + 1:c]))
            pos = c + 1
        find = None
        if texts(T[pos:pos + 2]) == [".", "find"] and T[pos + 2].s == "(":
            c = match_close(T, pos + 2)
            a = pos + 3
            if T[a].s == "move":
                a += 1
            if T[a].s != "|":
                raise LostAnchor("desugar-iter-chain: argument of .find(..) in %s is not a closure literal" % self.path)
            b = a + 1
            while b < c and T[b].s != "|":
                b += 1
            find = (T[a + 1:b], T[b + 1:c])
            pos = c + 1
        if not stages and not reverse and find is None:
            raise LostAnchor("desugar-iter-chain: no supported adapter follows `%s` in %s" % (" ".join(pat), self.path))
        if pos + 1 < len(T) and T[pos].s == "." and T[pos + 1].s in ("rev", "zip", "chain", "flat_map", "flatten", "take", "step_by", "peekable", "scan", "inspect"):
            raise LostAnchor("desugar-iter-chain: unsupported adapter .%s in %s" % (T[pos + 1].s, self.path))
        terminal = None
        if pos + 1 < len(T) and T[pos].s == "." and T[pos + 1].s == "collect":
            q = pos + 2
            if T[q].s == ":" and T[q + 1].s == ":":
                q += 2
                d = 0
                while True:
                    if T[q].s == "<":
                        d += 1
                    elif T[q].s == ">":
                        d -= 1
                        if d == 0:
                            break
                    q += 1
                q += 1
            if T[q].s != "(" or T[q + 1].s != ")":
                raise LostAnchor("desugar-iter-chain: malformed collect")
            pos = q + 2
            terminal = "collect"
        wrapfn = None
        if call and call.startswith("collect:"):
            if terminal != "collect":
                raise LostAnchor("desugar-iter-chain: chain in %s does not end in .collect()" % self.path)
            wrapfn = call.partition(":")[2]
        elif call:
            meth, _, wrapfn = call.partition(":")
            if texts(T[pos:pos + 4]) != [".", meth, "(", ")"]:
                raise LostAnchor("desugar-iter-chain: chain in %s is not followed by .%s()" % (self.path, meth))
            pos += 4
        line = T[h].line

        def sc(txt):
            ts = tokenize(txt)
            for t in ts:
                t.line = line
            return ts

        pre = sc("{ let mut %s: Vec<%s> = Vec::new();" % (out, elem))
        nsw = 0
        has_enum = any(st[0] == "enumerate" for st in stages)
        if has_enum:
            pre += sc(" let mut __n: usize = 0;")
        nsk = 0
        for st in stages:
            if st[0] == "skip_while":
                pre += sc(" let mut __sw%d: bool = true;" % nsw)
                nsw += 1
            if st[0] == "skip":
                pre += sc(" let mut __sk%d: usize = 0; let __skn%d: usize =" % (nsk, nsk)) + [Tok(" " if not t.ws else t.ws, t.s, t.line) for t in st[2]] + sc(";")
                nsk += 1
        src = [Tok(t.ws, t.s, t.line) for t in T[h:h + len(pat)]]
        src[0].ws = " "
        body = []
        closers = 0
        k = 0
        sw = 0
        skc = 0
        for (name, ptoks, btoks) in stages:
            x = "__x%d" % k
            if name == "enumerate":
                body += sc("\n let __x%d = (__n, %s); __n = __n + 1;" % (k + 1, x))
                k += 1
                continue
            if name == "skip":
                body += sc("\n if __sk%d < __skn%d { __sk%d = __sk%d + 1; } else {" % (skc, skc, skc, skc))
                skc += 1
                closers += 1
                continue
            if name in ("copied", "cloned"):
                # Copy types only in the code we extract (&'static str, integers): `*x`
                body += sc("\n let __x%d = *%s;" % (k + 1, x))
                k += 1
                continue
            P = [Tok(t.ws, t.s, t.line) for t in ptoks]
            B = [Tok(t.ws, t.s, t.line) for t in btoks]
            if P and not P[0].ws:
                P[0].ws = " "
            if B and not B[0].ws:
                B[0].ws = " "
            if name in ("filter", "skip_while", "take_while"):
                if len(P) == 2 and P[0].s == "&" and IDENT_RE.match(P[1].s):
                    # `|&v|` against the `&Item` argument binds v to a copy of the item (Item: Copy, or rustc
                    # would have rejected the original): `let v = item;`
                    body += sc("\n let __c%d = { let" % k) + [Tok(" ", P[1].s, P[1].line)] + sc(" = %s;" % x) + B + sc(" };")
                else:
                    body += sc("\n let __c%d = { let" % k) + P + sc(" = &%s;" % x) + B + sc(" };")
                if name == "filter":
                    body += sc(" if __c%d {" % k)
                    closers += 1
                elif name == "take_while":
                    body += sc(" if !__c%d { break; }" % k)
                else:
                    body += sc(" if __sw%d && __c%d { } else { __sw%d = false;" % (sw, k, sw))
                    sw += 1
                    closers += 1
            elif name == "map":
                body += sc("\n let __x%d = { let" % (k + 1)) + P + sc(" = %s;" % x) + B + sc(" };")
                k += 1
            elif name == "filter_map":
                body += sc("\n let __o%d = { let" % k) + P + sc(" = %s;" % x) + B + sc(" };")
                body += sc(" if let Some(__x%d) = __o%d {" % (k + 1, k))
                closers += 1
                k += 1
        if find is not None:
            FP = [Tok(t.ws, t.s, t.line) for t in find[0]]
            FB = [Tok(t.ws, t.s, t.line) for t in find[1]]
            if FP and not FP[0].ws:
                FP[0].ws = " "
            if FB and not FB[0].ws:
                FB[0].ws = " "
            if len(FP) == 2 and FP[0].s == "&" and IDENT_RE.match(FP[1].s):
                FP = [Tok(" ", FP[1].s, FP[1].line)]
                fsrc = " = __x%d;" % k
            else:
                fsrc = " = &__x%d;" % k
            body += sc("\n let __cf = { let") + FP + sc(fsrc) + FB + sc(" }; if __cf { %s = Some(__x%d); break; }" % (out, k)) + sc(" }" * closers)
            pre = sc("{ let mut %s: Option<%s> = None;" % (out, elem)) + pre[len(sc("{ let mut %s: Vec<%s> = Vec::new();" % (out, elem))):]
        else:
            body += sc("\n %s.push(__x%d);" % (out, k)) + sc(" }" * closers)
        if reverse:
            base = [Tok(t.ws, t.s, t.line) for t in T[h:h + len(pat) - 4]]
            base[0].ws = ""
            base2 = [Tok(t.ws, t.s, t.line) for t in base]
            new = (pre + sc("\n let mut __i: usize = (") + base + sc(").len();\n while __i > 0 { __i = __i - 1; let __x0 = &(") + base2
                   + sc(")[__i];") + body + sc("\n } %s }" % out))
        else:
            new = pre + sc("\n for __x0 in") + src + sc(" {") + body + sc("\n } %s }" % out)
        if wrapfn:
            new = sc(wrapfn + "(") + new + sc(")")
        new[0].ws = T[h].ws if T[h].ws else " "
        self.toks[h:pos] = new
        self.log.append({"kind": "desugar-iter-chain", "source": " ".join(pat),
                         "stages": (["rev"] if reverse else []) + [st[0] for st in stages], "terminal": ("find" if find is not None else terminal), "elem": elem, "consumer": call,
                         "why": "std-documented per-element semantics of the adapters; closure bodies inlined verbatim",
                         "drops": "laziness; the iterator's concrete type (value is a Vec)"})

    def drop_plain_logs(self):
        """after the declared edits: delete remaining `trace!/debug!/info!/warn!/error!(..);` statements whose arguments
        contain no arithmetic and no indexing (an added plain log line must not put a unit out of reach); statements with
        such arguments are left in place (the unit then fails to compile = undecided)."""
        names = {"trace", "debug", "info", "warn", "error"}
        n = 0
        i = 0
        while i < len(self.toks) - 2:
            t = self.toks[i]
            if t.s in names and self.toks[i + 1].s == "!" and self.toks[i + 2].s == "(" and t.line != 0:
                c = match_close(self.toks, i + 2)
                start = i
                if start >= 3 and self.toks[start - 1].s == ":" and self.toks[start - 2].s == ":" and self.toks[start - 3].s == "tracing":
                    start -= 3
                end = c + 1
                if end < len(self.toks) and self.toks[end].s == ";":
                    end += 1
                else:
                    i += 1
                    continue          # used as an expression: leave it
                args = texts(self.toks[i + 3:c])
                risky = any(a in ("+", "-", "*", "/", "%", "<<", ">>") or (a == "[" and k > 0 and _IDENT.fullmatch(args[k - 1] or "")) for k, a in enumerate(args))
                if risky:
                    i += 1
                    continue
                del self.toks[start:end]
                n += 1
                i = start
                continue
            i += 1
        if n:
            self.log.append({"kind": "drop-log", "count": n, "declared": "auto", "args_with_arithmetic_or_index": [],
                             "why": "logging only (plain arguments); removed automatically"})

    def drop_logs(self, expect):
        """delete every `trace!/debug!/info!/warn!/error!( .. );` statement (tracing macros; also the
        `tracing::warn!` path form).  The arguments are NOT kept: any argument containing an
        arithmetic operator or an index expression is listed in the edit log so a reviewer can see
        that no panicking expression was dropped."""
        names = {"trace", "debug", "info", "warn", "error"}
        n = 0
        risky = []
        i = 0
        while i < len(self.toks) - 2:
            t = self.toks[i]
            if t.s in names and self.toks[i + 1].s == "!" and self.toks[i + 2].s == "(" and t.line != 0:
                c = match_close(self.toks, i + 2)
                start = i
                if start >= 3 and self.toks[start - 1].s == ":" and self.toks[start - 2].s == ":" and self.toks[start - 3].s == "tracing":
                    start -= 3
                end = c + 1
                if end < len(self.toks) and self.toks[end].s == ";":
                    end += 1
                args = texts(self.toks[i + 3:c])
                for k, a in enumerate(args):
                    if a in ("+", "-", "*", "/", "%", "<<", ">>") or (a == "[" and k > 0 and _IDENT.fullmatch(args[k - 1] or "")):
                        risky.append(" ".join(args)[:200])
                        break
                del self.toks[start:end]
                n += 1
                i = start
                continue
            i += 1
        # a different number of log statements than declared is tolerated as long as none of them has an argument that
        # could panic (arithmetic / indexing): adding or removing a plain log line must not make the unit undecided
        if expect >= 0 and n != expect and risky:
            raise LostAnchor("drop-log: found %d log statements in %s, expected %d (and some have arithmetic or index arguments)" % (n, self.path, expect))
        self.log.append({"kind": "drop-log", "count": n, "declared": expect, "args_with_arithmetic_or_index": risky,
                         "why": "logging only; arguments are not evaluated in the verified text"})

    def sinks(self, expect, fn="ext_sink"):
        """`write!(f, fmt, a, b)` / `writeln!(f, fmt, a, b)`  ==>  `ext_sink(f, (a, b,))`.
        The formatting is dropped; the argument expressions are kept and still evaluated, so their
        index / overflow obligations remain.  (Identifiers captured inside the format string are
        plain variable reads and cannot panic.)"""
        n = 0
        i = 0
        while i < len(self.toks) - 2:
            t = self.toks[i]
            if t.s in ("write", "writeln") and self.toks[i + 1].s == "!" and self.toks[i + 2].s == "(" and t.line != 0:
                c = match_close(self.toks, i + 2)
                # split top-level commas
                parts = []
                cur = []
                d = 0
                for q in range(i + 3, c):
                    x = self.toks[q].s
                    if x in OPEN:
                        d += 1
                    elif x in CLOSE:
                        d -= 1
                    if x == "," and d == 0:
                        parts.append(cur)
                        cur = []
                    else:
                        cur.append(self.toks[q])
                if cur:
                    parts.append(cur)
                if len(parts) < 1:
                    raise LostAnchor("write! without a destination")
                dest = render(parts[0]).strip()
                rest = [render(p_).strip() for p_ in parts[2:]]
                # named arguments `name = expr` keep only the expression
                rest = [r.split("=", 1)[1].strip() if re.match(r"^[A-Za-z_][A-Za-z0-9_]*\s*=[^=]", r) else r for r in rest]
                new = tokenize("%s(%s, (%s))" % (fn, dest, "".join(r + ", " for r in rest)))
                for z in new:
                    z.line = t.line
                new[0].ws = t.ws
                self.toks[i:c + 1] = new
                n += 1
                i += len(new)
                continue
            i += 1
        if expect >= 0 and n != expect:
            raise LostAnchor("sink: found %d write!/writeln! statements in %s, expected %d" % (n, self.path, expect))
        self.log.append({"kind": "sink", "count": n, "why": "formatting dropped, argument expressions kept"})

    def desugar_match_str(self, nth, eqfn):
        """match T { "a" => {A} "b" => {B} _ => {Z} }  ==>
           if eqfn(T, "a") {A} else if eqfn(T, "b") {B} else {Z}
        Only for a scrutinee that is a plain identifier and arms that are string literals or `_`
        with block bodies (Rust matches string-literal patterns by string equality, so this is the
        language's own meaning of the match).  Needed because Verus derives no negative fact in the
        fall-through arm of a `&str` match."""
        ms = [i for i, t in enumerate(self.toks) if t.s == "match" and t.line != 0]
        if nth < 1 or nth > len(ms):
            raise LostAnchor("match #%d not found in %s" % (nth, self.path))
        m = ms[nth - 1]
        scrut = self.toks[m + 1].s
        if not _IDENT.fullmatch(scrut) or self.toks[m + 2].s != "{":
            raise LostAnchor("match #%d scrutinee is not a plain identifier" % nth)
        o = m + 2
        c = match_close(self.toks, o)
        arms = []
        i = o + 1
        while i < c:
            pats = []
            while True:
                pat = self.toks[i].s
                if not (pat == "_" or pat.startswith('"')):
                    raise LostAnchor("match arm pattern %r is not a string literal or `_`" % pat)
                pats.append(pat)
                i += 1
                if self.toks[i].s == "|":       # or-pattern of string literals
                    i += 1
                    continue
                break
            if not (self.toks[i].s == "=" and self.toks[i + 1].s == ">"):
                raise LostAnchor("match arm %r: expected `=>`" % pats)
            i += 2
            if self.toks[i].s == "{":
                bo = i
                bc = match_close(self.toks, bo)
                body = self.toks[bo:bc + 1]
                i = bc + 1
            else:
                # expression body: up to the `,` at depth 0 (or the end of the match)
                d = 0
                q = i
                while q < c:
                    x = self.toks[q].s
                    if x in OPEN:
                        d += 1
                    elif x in CLOSE:
                        d -= 1
                    elif x == "," and d == 0:
                        break
                    q += 1
                line0 = self.toks[i].line
                body = [Tok(" ", "{", line0)] + self.toks[i:q] + [Tok(" ", "}", line0)]
                i = q
            arms.append((pats, body))
            if i < c and self.toks[i].s == ",":
                i += 1
        if not arms or arms[-1][0] != ["_"] or any("_" in a[0] for a in arms[:-1]):
            raise LostAnchor("match must end in exactly one `_` arm")
        line = self.toks[m].line
        out = []
        for k, (pats, body) in enumerate(arms):
            if pats == ["_"]:
                head = tokenize(" else")
            else:
                cond = " || ".join("%s(%s, %s)" % (eqfn, scrut, p_) for p_ in pats)
                head = tokenize(("if " if k == 0 else " else if ") + cond)
            for t in head:
                t.line = line
            out += head + body
        out[0].ws = self.toks[m].ws
        self.toks[m:c + 1] = out
        self.log.append({"kind": "desugar-match-str", "match": nth, "scrutinee": scrut,
                         "arms": [a[0] for a in arms], "eq": eqfn,
                         "why": "string-literal patterns compare by string equality; Verus gives no negative fact in the `_` arm"})

    def text(self):
        return render(self.toks).strip() + "\n"

    def line_of(self, gen_line_offset):
        return None


def resolve_source(repo, relpath):
    """`registry:<crate>-<version>/<path>` names a file of a dependency as unpacked by cargo (the crate and version
    are pinned by /repo's Cargo.lock); everything else is relative to the repository root"""
    if relpath.startswith("registry:"):
        import glob
        hits = sorted(glob.glob(os.path.expanduser("~/.cargo/registry/src/*/") + relpath[len("registry:"):]))
        if len(hits) != 1:
            raise LostAnchor("dependency source `%s` found %d times in the cargo registry" % (relpath, len(hits)))
        return hits[0]
    return "%s/%s" % (repo, relpath)


def extract(repo, relpath, path_steps):
    src = open(resolve_source(repo, relpath), encoding="utf-8").read()
    toks = tokenize(src)
    start, o, c = locate(toks, path_steps)
    return Item(relpath, " :: ".join(path_steps), toks, start, o, c)


def find_const(repo, relpath, name):
    """the text of `const NAME: T = EXPR;` (any nesting depth) in a source file, or None; attributes and
    visibility are not part of it.  Used to follow a reference from extracted text to a module-level constant."""
    try:
        toks = tokenize(open(resolve_source(repo, relpath), encoding="utf-8").read())
    except (OSError, LostAnchor):
        return None
    for i in range(len(toks) - 2):
        if toks[i].s in ("const", "static") and toks[i + 1].s == name and toks[i + 2].s == ":":
            d = 0
            j = i
            while j < len(toks):
                t = toks[j].s
                if t in OPEN:
                    d += 1
                elif t in CLOSE:
                    d -= 1
                elif t == ";" and d == 0:
                    break
                j += 1
            seg = [Tok(t.ws, t.s, t.line) for t in toks[i:j + 1]]
            seg[0].ws = ""
            # elided lifetimes in a const's type are 'static; Verus wants them written out
            k2 = 0
            in_ty = False
            while k2 < len(seg):
                if seg[k2].s == ":" and not in_ty:
                    in_ty = True
                elif seg[k2].s == "=" and in_ty:
                    break
                elif in_ty and seg[k2].s == "&" and k2 + 1 < len(seg) and not seg[k2 + 1].s.startswith("'"):
                    seg.insert(k2 + 1, Tok("", "'static", seg[k2].line))
                    if k2 + 2 < len(seg) and not seg[k2 + 2].ws:
                        seg[k2 + 2].ws = " "
                k2 += 1
            txt = render(seg).strip()
            if txt.startswith("static"):
                txt = "const" + txt[len("static"):]
            return "pub " + txt
    return None


def canon_format(fmt, rest):
    """Canonical spelling of a format string and its arguments: every placeholder gets an explicit position --
    `{}` the next implicit one, `{name}` (an inline capture) the position of `name` appended to the arguments once --
    so that `format!("{:08X}{:x}", a, b)`, `format!("{0:08X}{1:x}", a, b)` and `format!("{a:08X}{b:x}")` become the same
    text.  The format specs (`:08X`) are kept verbatim.  Anything unusual (raw strings, `name = expr` arguments,
    `$` width / precision arguments, nested braces) is left as it is."""
    if not (fmt.startswith('"') and fmt.endswith('"')) or "\\" in fmt or any(re.match(r"^[A-Za-z_][A-Za-z0-9_]*\s*=[^=]", r) for r in rest):
        return fmt, rest
    body = fmt[1:-1]
    out = []
    args = list(rest)
    nextpos = 0
    i = 0
    n = len(body)
    while i < n:
        c = body[i]
        if c == "{":
            if i + 1 < n and body[i + 1] == "{":
                out.append("{{")
                i += 2
                continue
            j = body.find("}", i)
            if j < 0:
                return fmt, rest
            inner = body[i + 1:j]
            if "{" in inner or "$" in inner:
                return fmt, rest
            arg, sep, spec = inner.partition(":")
            arg = arg.strip()
            if arg == "":
                idx = nextpos
                nextpos += 1
            elif arg.isdigit():
                idx = int(arg)
            elif IDENT_RE.fullmatch(arg):
                if arg in args[len(rest):]:
                    idx = len(rest) + args[len(rest):].index(arg)
                else:
                    args.append(arg)
                    idx = len(args) - 1
            else:
                return fmt, rest
            out.append("{%d%s%s}" % (idx, sep, spec))
            i = j + 1
            continue
        if c == "}":
            if i + 1 < n and body[i + 1] == "}":
                out.append("}}")
                i += 2
                continue
            return fmt, rest
        out.append(c)
        i += 1
    return '"' + "".join(out) + '"', args


def find_type_alias(repo, relpath, name):
    """the text of a module-level `type NAME = T;` in a source file, or None"""
    try:
        toks = tokenize(open(resolve_source(repo, relpath), encoding="utf-8").read())
    except (OSError, LostAnchor):
        return None
    for i in range(len(toks) - 3):
        if toks[i].s == "type" and toks[i + 1].s == name and toks[i + 2].s == "=":
            j = i
            while j < len(toks) and toks[j].s != ";":
                j += 1
            seg = [Tok(t.ws, t.s, t.line) for t in toks[i:j + 1]]
            seg[0].ws = ""
            return "pub " + render(seg).strip()
    return None


def find_outer_let(repo, relpath, steps, name, before_line):
    """the last `let NAME = EXPR;` / `let NAME: T = EXPR;` (immutable binding, any nesting depth) of the located
    function that ends before source line `before_line`, or None.  Used to follow a reference from a lifted block
    to a local of the enclosing function that is not among the declared parameters (a local a change introduced)."""
    try:
        item = extract(repo, relpath, steps)
    except (OSError, LostAnchor):
        return None
    T = item.toks
    best = None
    for i in range(len(T) - 2):
        if T[i].s == "let" and T[i + 1].s == name and T[i + 2].s in ("=", ":") and T[i].line < before_line:
            d = 0
            j = i
            while j < len(T):
                t = T[j].s
                if t in OPEN:
                    d += 1
                elif t in CLOSE:
                    d -= 1
                    if d < 0:
                        break
                elif t == ";" and d == 0:
                    break
                j += 1
            if j < len(T) and T[j].s == ";" and T[j].line < before_line:
                seg = [Tok(t.ws, t.s, t.line) for t in T[i:j + 1]]
                seg[0].ws = ""
                best = render(seg).strip()
    return best


_CLOSURE_PREV = {"(", ",", "=", "move", "{", ";", "return", "=>", "[", ":", "&&", "||", "!", "else"}


def unannotated_closures(text):
    """closure literals in `text` that carry no requires / ensures clause (Verus knows nothing about what such a closure
    returns, so a proof that depends on one can fail for no semantic reason).  Returns their source snippets."""
    toks = tokenize(text)
    out = []
    i = 0
    n = len(toks)
    while i < n:
        s = toks[i].s
        if s in ("|", "||") and i > 0 and toks[i - 1].s in _CLOSURE_PREV:
            # `||` after `&&`, `(`, ... can also be a parameterless closure; an or-operator never follows these tokens
            if s == "||":
                j = i
            else:
                j = i + 1
                depth = 0
                while j < n and not (toks[j].s == "|" and depth == 0):
                    if toks[j].s in OPEN:
                        depth += 1
                    elif toks[j].s in CLOSE:
                        depth -= 1
                        if depth < 0:
                            break
                    j += 1
                if j >= n or toks[j].s != "|":
                    i += 1
                    continue
            # tokens up to the body's `{` (or 12 tokens) decide whether a contract follows
            k = j + 1
            annotated = False
            while k < n and k < j + 60:
                t = toks[k].s
                if t in ("requires", "ensures"):
                    annotated = True
                    break
                if t in ("(", "["):
                    k = match_close(toks, k) + 1
                    continue
                if t in ("{", ";", ",", ")", "]", "}"):
                    break
                k += 1
            if not annotated:
                out.append(render(toks[i:min(n, j + 8)]).strip()[:80])
            i = j + 1
            continue
        i += 1
    return out
