"""Generate, run and triage one Verus unit."""
import hashlib
import json
import os
import re
import subprocess
import time

import rsx
import vspec

REPO = os.environ.get("VERIF_REPO", "/repo")
ROOT = os.path.dirname(os.path.dirname(os.path.abspath(__file__)))
WORK = os.path.join(ROOT, ".work")
SPECS = os.path.join(ROOT, "specs")

ASSUME_PATTERNS = ["assume(", "admit(", "external_body", "assume_specification",
                   "exec_allows_no_decreases_clause", "external_fn_specification",
                   "external_type_specification", "#[verifier::external"]

VERIF_ERR = ("postcondition not satisfied", "precondition not satisfied", "invariant not satisfied",
             "assertion failed", "possible arithmetic underflow/overflow", "possible division by zero",
             "index out of bounds", "decreases not satisfied", "failed this", "loop invariant",
             "possible bit shift underflow/overflow", "recommendation not met",
             "unreachable", "might not be allowed", "could not prove termination",
             "assertion not satisfied", "not satisfied", "unable to prove", "precondition not met")


def run_verus(path, rlimit=None, timeout=600):
    cmd = ["verus", path, "--output-json", "--time-expanded", "--multiple-errors", "12"]
    if rlimit:
        cmd += ["--rlimit", str(rlimit)]
    t0 = time.time()
    try:
        env = dict(os.environ)
        env.setdefault("RUST_MIN_STACK", "536870912")    # long generated if-chains (70 SPARC register names) overflow the default compiler stack
        p = subprocess.run(cmd, capture_output=True, text=True, timeout=timeout,
                           cwd=os.path.dirname(path), env=env)
        out, err, rc = p.stdout, p.stderr, p.returncode
    except subprocess.TimeoutExpired as e:
        out, err, rc = "", "TIMEOUT after %ds" % timeout, 124
    wall = time.time() - t0
    js = None
    try:
        js = json.loads(out)
    except Exception:
        # verus prints JSON then possibly other lines; find the outermost object
        m = re.search(r"\{.*\}", out, re.S)
        if m:
            try:
                js = json.loads(m.group(0))
            except Exception:
                js = None
    return {"cmd": " ".join(cmd), "rc": rc, "json": js, "stderr": err, "wall_s": wall}


def parse_diags(stderr):
    """split rustc-style diagnostics: list of {level, msg, line, text}."""
    diags = []
    cur = None
    for ln in stderr.split("\n"):
        m = re.match(r"^(error|warning|note)(\[[A-Z0-9]+\])?: (.*)$", ln)
        if m:
            cur = {"level": m.group(1), "code": m.group(2), "msg": m.group(3), "line": None,
                   "text": ln + "\n", "lines": []}
            diags.append(cur)
            continue
        if cur is not None:
            cur["text"] += ln + "\n"
            m = re.match(r"^\s*-->\s*(\S+?):(\d+):(\d+)", ln)
            if m and cur["line"] is None:
                cur["line"] = int(m.group(2))
            m = re.match(r"^\s*(\d+)\s*\|", ln)
            if m:
                cur["lines"].append(int(m.group(1)))
    return diags


def classify(diag):
    msg = diag["msg"]
    if diag["level"] != "error":
        return "ignore"
    if msg.startswith("aborting due to") or msg.startswith("could not compile"):
        return "ignore"
    low = msg.lower()
    if "rlimit" in low or "resource limit" in low or "timed out" in low or "timeout" in low:
        return "rlimit"
    if diag["code"]:
        return "compile"
    for k in VERIF_ERR:
        if k in low:
            return "verification"
    return "compile"


def scan_assumptions(text):
    found = []
    for i, ln in enumerate(text.split("\n")):
        s = ln.strip()
        if s.startswith("//"):
            continue
        for p in ASSUME_PATTERNS:
            if p in ln:
                found.append({"line": i + 1, "pattern": p, "text": s[:160]})
                break
    return found


def item_for_line(meta, line):
    for it in meta["items"]:
        a, b = it["gen_lines"]
        if a <= line <= b:
            return it
    return None


def snippet(gen_text, line):
    ls = gen_text.split("\n")
    if line and 1 <= line <= len(ls):
        return ls[line - 1].strip()
    return ""


def check_unit(spec_path, do_twins=True, keep=True):
    """Returns a result dict:
       status: holds | violation | undecided
       functions: [{fn, success, rlimit, time_ms}]
       failures: [{obligation, kind, fn, text}]     (verification failures)
       reason: for undecided
    """
    res = {"spec": spec_path, "status": "undecided", "reason": "", "functions": [], "failures": [],
           "assumption_sites": [], "edits": [], "items": [], "verified": 0, "errors": 0,
           "solver_ms": 0, "wall_s": 0.0, "twins": [], "cmd": ""}
    t0 = time.time()
    try:
        u = vspec.parse(spec_path)
    except Exception as e:
        res["reason"] = "spec-error: %s" % e
        return res
    res["unit"] = u["unit"]
    res["properties"] = u["properties"]
    res["panic_only"] = u.get("panic_only", [])
    res["title"] = u["title"]
    res["assumes"] = u.get("assumes", [])
    res["drops"] = u.get("drops", [])
    res["not_covered"] = u.get("not_covered", [])
    res["paired_kani"] = u.get("paired_kani", [])
    # one directory per (property being checked, unit): checks of two properties that share a unit may run at the same
    # time and must not write each other's generated file
    gdir = os.path.join(WORK, "verus", os.environ.get("VERIF_WORK_TAG", "dev"), u["unit"])
    os.makedirs(gdir, exist_ok=True)
    if u.get("generated_by"):
        # the specification side of this unit is generated from /repo (register names and the slots
        # get_register_always reads): it is regenerated on every run and the fresh text is what gets verified, so
        # the table always follows the tree under test; the committed copy only documents the unchanged tree
        import shlex
        import shutil
        import tempfile
        td = tempfile.mkdtemp(prefix="verif-gen-")
        try:
            cmd = shlex.split(u["generated_by"]) + ["--out", td]
            cmd[0] = os.path.join(ROOT, cmd[0])
            e = dict(os.environ)
            e["VERIF_REPO"] = REPO
            g = subprocess.run(cmd, capture_output=True, text=True, env=e, timeout=300)
            fresh = os.path.join(td, os.path.basename(spec_path))
            if g.returncode != 0 or not os.path.exists(fresh):
                res["reason"] = "lost-anchor: generator `%s` failed: %s" % (u["generated_by"], (g.stderr or g.stdout).strip()[-300:])
                return res
            res["regenerated_differs"] = open(fresh).read() != open(spec_path).read()
            try:
                u = vspec.parse(fresh)
            except Exception as ex:
                res["reason"] = "spec-error: %s" % ex
                return res
        finally:
            shutil.rmtree(td, ignore_errors=True)
    try:
        text, meta = vspec.generate(u, REPO, SPECS)
    except rsx.LostAnchor as e:
        res["reason"] = "lost-anchor: %s" % e
        return res
    except FileNotFoundError as e:
        res["reason"] = "lost-anchor: %s" % e
        return res
    except vspec.SpecError as e:
        res["reason"] = "spec-error: %s" % e
        return res
    gpath = os.path.join(gdir, u["unit"] + ".rs")
    open(gpath, "w").write(text)
    res["generated"] = gpath
    # follow references from the extracted text to module-level constants of the same source files: a name rustc
    # cannot resolve (E0425, SCREAMING_CASE) is looked up as `const NAME: T = ..;` in the items' files and copied
    extra = ""
    auto_consts = []
    auto_lets = {}
    prelets = {}
    inlines = []
    r = run_verus(gpath, u.get("rlimit"))
    for _round in range(4):
        missing = sorted(set(re.findall(r"error\[E0425\]: cannot find value `([A-Z][A-Z0-9_]+)` in this scope", r["stderr"])))
        added = False
        for name in missing:
            if name in auto_consts:
                continue
            for it in u["items"]:
                c = rsx.find_const(REPO, it["relpath"], name)
                if c:
                    extra += c + "\n"
                    auto_consts.append(name)
                    added = True
                    break
        # ... and to module-level type aliases (`type Pointer = u32;`)
        for name in sorted(set(re.findall(r"cannot find type `([A-Za-z_][A-Za-z0-9_]*)` in this scope", r["stderr"]))):
            if name in auto_consts:
                continue
            for it in u["items"]:
                c = rsx.find_type_alias(REPO, it["relpath"], name)
                if c:
                    extra += c + "\n"
                    auto_consts.append(name)
                    added = True
                    break
        # a lifted block that refers to a local of its enclosing function which is not a declared parameter (a local a
        # change introduced): copy the immutable `let` that defines it in front of the block
        for d in parse_diags(r["stderr"]):
            m = re.match(r"cannot find value `([a-z_][a-z0-9_]*)` in this scope", d["msg"])
            if not m or d["level"] != "error":
                continue
            name = m.group(1)
            it = item_for_line(meta, d["line"]) if d["line"] else None
            if it is None or not any(e.get("kind") in ("lift-block", "lift-stmts", "lift-closure") for e in it["edits"]):
                continue
            idx = meta["items"].index(it)
            if any(x[0] == name for x in auto_lets.get(idx, [])):
                continue
            stmt = rsx.find_outer_let(REPO, it["relpath"], it["steps"], name, it["src_lines"][0])
            if stmt:
                auto_lets.setdefault(idx, []).insert(0, (name, stmt))
                added = True
        # ... and to free helper functions of the same file the unit does not know: inlined at their call sites
        for name in sorted(set(re.findall(r"cannot find function `([a-z_][a-z0-9_]*)` in this scope", r["stderr"])
                               + re.findall(r"no method named `([a-z_][a-z0-9_]*)` found", r["stderr"])
                               + re.findall(r"no function or associated item named `([a-z_][a-z0-9_]*)` found", r["stderr"])
                               + re.findall(r"no variant, associated function, or constant named `([a-z_][a-z0-9_]*)` found", r["stderr"]))):
            if name not in inlines:
                inlines.append(name)
                added = True
        if not added:
            break
        prelets = {k: [x[1] for x in v] for k, v in auto_lets.items()}
        try:
            text, meta = vspec.generate(u, REPO, SPECS, extra=extra, prelets=prelets, inline=inlines)
        except Exception:
            break
        open(gpath, "w").write(text)
        r = run_verus(gpath, u.get("rlimit"))
    res["auto_consts"] = auto_consts
    res["auto_lets"] = [x[1] for v in auto_lets.values() for x in v]
    res["inlined_helpers"] = [e["name"] for it in meta["items"] for e in it["edits"] if e.get("kind") == "inline-helper"]
    res["extra"] = extra
    res["assumption_sites"] = scan_assumptions(text)
    # closure literals without a contract, per extracted item: Verus knows nothing about what such a closure returns,
    # so when a change ADDS one (count above the baseline) a failed obligation of that item is undecided, not a violation
    glines = text.split("\n")
    res["closures"] = {}
    for it in meta["items"]:
        a, b = it["gen_lines"]
        try:
            res["closures"][it["label"]] = len(rsx.unannotated_closures("\n".join(glines[a - 1:b])))
        except Exception:
            res["closures"][it["label"]] = 0
    # the text an abstract-span edit replaces is not seen by the verifier: its hash is part of the baseline, and a unit
    # that still verifies although such a text changed is undecided (the change is outside what the unit checks)
    res["spans"] = sorted("%s:%s" % (it["label"], e["span_sha"]) for it in meta["items"] for e in it["edits"] if e.get("kind") == "abstract-span" and e.get("span_sha"))
    res["lost_loop_items"] = [it["label"] for it in meta["items"] if any(e.get("kind") == "lost-loop" for e in it["edits"])]
    for it in meta["items"]:
        res["items"].append({"file": it["relpath"], "path": it["path"], "fn": it["fn"],
                             "src_lines": it["src_lines"], "contracted": it["contracted"],
                             "sha256": hashlib.sha256(it["original"].encode()).hexdigest()[:16],
                             "edits": it["edits"]})
    res["cmd"] = r["cmd"]
    res["stderr"] = r["stderr"][-20000:]
    js = r["json"]
    diags = parse_diags(r["stderr"])
    kinds = [(classify(d), d) for d in diags]
    if js is None or "verification-results" not in js:
        res["reason"] = "unsupported: verus produced no result (rc=%s): %s" % (
            r["rc"], (r["stderr"].strip().split("\n") or [""])[0][:300])
        return res
    vr = js["verification-results"]
    res["verified"] = vr.get("verified", 0)
    res["errors"] = vr.get("errors", 0)
    try:
        smt = js["times-ms"]["smt"]
        res["solver_ms"] = smt.get("total", 0)
        for mod in smt.get("smt-run-module-times", []):
            for fb in mod.get("function-breakdown", []):
                res["functions"].append({"fn": fb["function"], "success": fb["success"],
                                         "rlimit": fb.get("rlimit"), "time_ms": fb.get("time")})
    except Exception:
        pass
    if vr.get("encountered-vir-error") or any(k == "compile" for k, _ in kinds):
        bad = [d for k, d in kinds if k == "compile"]
        res["reason"] = "unsupported: " + (bad[0]["msg"] if bad else "vir error")
        res["diag"] = bad[0]["text"] if bad else ""
        return res
    if any(k == "rlimit" for k, _ in kinds):
        res["reason"] = "rlimit: " + [d for k, d in kinds if k == "rlimit"][0]["msg"]
        return res
    vfail = [d for k, d in kinds if k == "verification"]
    if vr.get("success") and res["errors"] == 0:
        res["status"] = "holds"
    elif vfail:
        res["status"] = "violation"
        for d in vfail:
            it = item_for_line(meta, d["line"]) if d["line"] else None
            # a failing obligation may be reported at a callee's `requires` in the prelude: use any line
            if it is None:
                for l in d["lines"]:
                    it = item_for_line(meta, l)
                    if it:
                        break
            fn = it["label"] if it else "(prelude/postlude)"
            snip = snippet(text, d["line"])
            res["failures"].append({
                "obligation": "%s::%s: %s: `%s`" % (u["unit"], fn, d["msg"], snip),
                "kind": d["msg"], "fn": fn, "gen_line": d["line"], "text": d["text"],
                "src": (it["relpath"] + ":" + str(it["src_lines"][0])) if it else None})
    else:
        res["reason"] = "unsupported: verus failed without a verification diagnostic (rc=%s)" % r["rc"]
        return res
    # vacuity twins: each contracted function with `ensures false` must FAIL
    if do_twins and res["status"] == "holds":
        import concurrent.futures as cf
        jobs = []
        for idx, it in enumerate(meta["items"]):
            if it["contracted"]:
                ttext, _ = vspec.generate(u, REPO, SPECS, twin_of=idx, extra=extra, prelets=prelets, inline=inlines)
                tpath = os.path.join(gdir, "%s_twin%d.rs" % (u["unit"], idx))
                open(tpath, "w").write(ttext)
                jobs.append((it["label"], tpath))
        with cf.ThreadPoolExecutor(max_workers=8) as ex:
            futs = {ex.submit(run_verus, p, u.get("rlimit")): (lab, p) for lab, p in jobs}
            for f in cf.as_completed(futs):
                lab, p = futs[f]
                tr = f.result()
                tjs = tr["json"]
                failed = bool(tjs and tjs.get("verification-results", {}).get("errors", 0) > 0
                              and "postcondition not satisfied" in tr["stderr"])
                res["twins"].append({"fn": lab, "ensures_false_fails": failed})
                if not failed:
                    res["status"] = "undecided"
                    res["reason"] = "vacuous: `ensures false` twin of %s did not fail" % lab
    res["wall_s"] = time.time() - t0
    return res
