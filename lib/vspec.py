"""Parser for /verif/contracts/*.vspec and generator of the single-file Verus input.

File format (line oriented):

    unit: <name>
    properties: C08 C03
    title: <free text>
    use: <rust use line placed before verus!>          (repeatable)
    include: <file under /verif/specs placed inside verus!>  (repeatable)
    @@prelude            ... rust text placed inside verus! before the items ...
    @@item <relpath> :: <step> :: <step> [wrap=`impl X`] [as=<label>]
    @edit <kind> key=value ...      followed, for kinds that take text, by
    <<<
    text (pattern / expected signature / contract)
    ===
    replacement (only for replace and signature)
    >>>
    @@postlude           ... rust text placed inside verus! after the items (lemmas) ...

Edit kinds (DESIGN.md 2.1): signature, replace (with kind=abstract-call|abstract-op|pattern-norm|
drop-log|sink|de-async|type-stub), desugar-for, name-return, contract (at=signature|loop:K|
before|after with anchor=`...` nth=N), lift-block (a closure/loop/inner block of the located fn becomes the
function under contract), abstract-span (anchor + following bracket group + tail replaced by a stand-in call), desugar-iter-chain
(source.filter/map/filter_map/skip_while/take_while/enumerate[.collect()] chains become an explicit loop pushing into a Vec).
"""
import re
import shlex

import rsx


class SpecError(Exception):
    pass


REPLACE_KINDS = {"abstract-call", "abstract-op", "pattern-norm", "drop-log", "sink", "de-async",
                 "type-stub", "closure-contract"}


def _attrs(s):
    out = {}
    pos = []
    # backtick-quoted values
    def repl(m):
        pos.append(m.group(1))
        return "\x00%d\x00" % (len(pos) - 1)
    s2 = re.sub(r"`([^`]*)`", repl, s)
    for w in shlex.split(s2):
        if "=" in w:
            k, v = w.split("=", 1)
        else:
            k, v = w, ""
        v = re.sub(r"\x00(\d+)\x00", lambda m: pos[int(m.group(1))], v)
        out[k] = v
    return out


def parse(path):
    lines = open(path, encoding="utf-8").read().split("\n")
    u = {"unit": None, "properties": [], "title": "", "uses": [], "includes": [], "prelude": "",
         "postlude": "", "items": [], "path": path, "rlimit": None, "notes": []}
    i = 0
    mode = "head"
    cur_item = None
    buf = []

    def flush_block():
        nonlocal buf
        t = "\n".join(buf)
        buf = []
        return t

    while i < len(lines):
        ln = lines[i]
        if ln.startswith("@@"):
            if mode == "prelude":
                u["prelude"] += flush_block() + "\n"
            elif mode == "postlude":
                u["postlude"] += flush_block() + "\n"
            head = ln[2:].strip()
            if head.startswith("prelude"):
                mode = "prelude"
            elif head.startswith("postlude"):
                mode = "postlude"
            elif head.startswith("item"):
                mode = "item"
                rest = head[4:].strip()
                # split off attributes (wrap=`..` as=..)
                m = re.search(r"\s(wrap=|as=)", rest)
                attrs = {}
                if m:
                    attrs = _attrs(rest[m.start():])
                    rest = rest[:m.start()]
                parts = [p.strip() for p in re.split(r"\s::\s", rest)]
                cur_item = {"relpath": parts[0], "steps": parts[1:], "edits": [],
                            "wrap": attrs.get("wrap"), "as": attrs.get("as")}
                u["items"].append(cur_item)
            elif head.startswith("end"):
                mode = "head"
            else:
                raise SpecError("%s:%d unknown section %r" % (path, i + 1, head))
            i += 1
            continue
        if mode == "head":
            if ln.strip() and not ln.lstrip().startswith("#"):
                k, _, v = ln.partition(":")
                k = k.strip()
                v = v.strip()
                if k == "unit":
                    u["unit"] = v
                elif k == "properties":
                    # `C03:panic` = this unit counts for C03 only with its totality obligations (no overflow, no index
                    # out of bounds, no failed std precondition such as unwrap on None, termination) -- the clause
                    # "never panics / terminates" of that property; its functional postconditions belong to the others
                    u["properties"] = [x.split(":")[0] for x in v.split()]
                    u["panic_only"] = [x.split(":")[0] for x in v.split() if x.endswith(":panic")]
                elif k == "title":
                    u["title"] = v
                elif k == "use":
                    u["uses"].append(v)
                elif k == "include":
                    u["includes"].append(v)
                elif k == "rlimit":
                    u["rlimit"] = v
                elif k == "generated-by":
                    u["generated_by"] = v
                elif k == "note":
                    u["notes"].append(v)
                elif k == "assume":
                    u.setdefault("assumes", []).append(v)
                elif k == "drops":
                    u.setdefault("drops", []).append(v)
                elif k == "not_covered":
                    u.setdefault("not_covered", []).append(v)
                elif k == "expect":
                    u.setdefault("expects", []).append(v)
                elif k == "expect-derive":
                    u.setdefault("expect_derives", []).append(v)
                elif k == "paired_kani":
                    u.setdefault("paired_kani", []).extend(v.split())
                else:
                    raise SpecError("%s:%d unknown key %r" % (path, i + 1, k))
            i += 1
            continue
        if mode in ("prelude", "postlude"):
            buf.append(ln)
            i += 1
            continue
        if mode == "item":
            if ln.startswith("@edit"):
                rest = ln[5:].strip()
                kind, _, attrs = rest.partition(" ")
                e = {"kind": kind, "attrs": _attrs(attrs), "a": "", "b": "", "line": i + 1}
                i += 1
                if i < len(lines) and lines[i].strip() == "<<<":
                    i += 1
                    a = []
                    b = []
                    tgt = a
                    while lines[i].strip() != ">>>":
                        if lines[i].strip() == "===":
                            tgt = b
                        else:
                            tgt.append(lines[i])
                        i += 1
                        if i >= len(lines):
                            raise SpecError("%s: unterminated <<< block" % path)
                    i += 1
                    e["a"] = "\n".join(a)
                    e["b"] = "\n".join(b)
                cur_item["edits"].append(e)
                continue
            if ln.strip() == "" or ln.lstrip().startswith("#"):
                i += 1
                continue
            raise SpecError("%s:%d unexpected line in item: %r" % (path, i + 1, ln))
    if mode == "prelude":
        u["prelude"] += flush_block()
    elif mode == "postlude":
        u["postlude"] += flush_block()
    if not u["unit"]:
        raise SpecError("%s: no unit name" % path)
    return u


def _apply_one_lift(item, e):
    k = e["kind"]
    at = e["attrs"]
    if k == "lift-block":
        item.lift_block(at["anchor"], int(at.get("nth", "1")), e["a"], at.get("why", ""), at.get("pre", ""), at.get("post", ""))
    elif k == "lift-stmts":
        item.lift_stmts(at["anchor"], int(at.get("nth", "1")), int(at.get("count", "1")), e["a"], at.get("post", ""), at.get("why", ""))
    elif k == "lift-closure":
        item.lift_closure(at["anchor"], int(at.get("nth", "1")), e["a"], at.get("why", ""))


def apply_edits(item, edits, twin_false=False, prelets=None):
    """Apply the declared edits in order.  Returns True if the item has a signature contract."""
    contracted = False
    for e in edits:
        k = e["kind"]
        at = e["attrs"]
        # loop-attached edits of a function that has no loop any more (the loop was replaced by straight-line code): skipped
        # and logged as `lost-loop`; the driver then accepts only totality failures (overflow, shift, index, precondition)
        # of that item as violations -- they cannot be caused by a missing invariant -- and calls anything else undecided
        loopish = (k in ("desugar-for", "desugar-for-indexed")) or (k == "contract" and re.match(r"(loop|loop-end|after-loop):", at.get("at", "")))
        if loopish:
            try:
                nloops = len(item.loops())
            except Exception:
                nloops = -1
            if nloops == 0:
                item.log.append({"kind": "lost-loop", "edit": k + ":" + at.get("at", at.get("loop", "")),
                                 "why": "the function has no loop any more; loop contract not attached"})
                continue
        if k in ("lift-block", "lift-stmts", "lift-closure") and prelets:
            # right after the lift (before contract text with its own braces is inserted)
            _apply_one_lift(item, e)
            item.prepend_stmts("\n".join(prelets))
            continue
        if k == "signature":
            item.signature(e["a"], e["b"], at.get("why", ""))
        elif k == "replace":
            kind = at.get("kind")
            if kind not in REPLACE_KINDS:
                raise SpecError("replace edit needs kind= one of %s" % sorted(REPLACE_KINDS))
            item.replace(kind, e["a"], e["b"], -1 if at.get("count") == "any" else int(at.get("count", "1")), at.get("why", ""))
        elif k == "lift-block":
            item.lift_block(at["anchor"], int(at.get("nth", "1")), e["a"], at.get("why", ""), at.get("pre", ""), at.get("post", ""))
        elif k == "lift-stmts":
            item.lift_stmts(at["anchor"], int(at.get("nth", "1")), int(at.get("count", "1")), e["a"], at.get("post", ""), at.get("why", ""))
        elif k == "lift-closure":
            item.lift_closure(at["anchor"], int(at.get("nth", "1")), e["a"], at.get("why", ""))
        elif k == "abstract-span":
            item.abstract_span(at["anchor"], int(at.get("nth", "1")), at.get("tail", ""), e["a"], at.get("why", ""), int(at.get("groups", "1")))
        elif k == "desugar-iter-chain":
            item.desugar_iter_chain(at["source"], int(at.get("nth", "1")), at["elem"], at.get("out", "__out"), at.get("call"))
        elif k == "enum-eq":
            item.enum_eq(at.get("prefix") or at["rhs"], -1 if at.get("count", "any") == "any" else int(at["count"]), at.get("why", ""), at.get("call"), exact_rhs=("rhs" in at))
        elif k == "drop-attrs":
            item.drop_attrs(at.get("why", ""))
        elif k == "closure-annotate":
            item.closure_annotate(at["anchor"], int(at.get("nth", "1")), e["a"], e["b"], at.get("why", ""))
        elif k == "formats":
            item.formats(-1 if at.get("count", "any") == "any" else int(at["count"]), at.get("fn", "ext_format"))
        elif k == "rename":
            item.rename_ident(at["from"], at["to"], at.get("why", ""))
        elif k == "desugar-for":
            item.desugar_for(int(at["loop"]), at.get("it", "vit"))
        elif k == "desugar-for-indexed":
            item.desugar_for_indexed(int(at["loop"]), at.get("counter"))
        elif k == "sinks":
            item.sinks(-1 if at.get("count") == "any" else int(at.get("count", "0")), at.get("fn", "ext_sink"))
        elif k == "drop-logs":
            item.drop_logs(-1 if at.get("count") == "any" else int(at.get("count", "0")))
        elif k == "desugar-match-str":
            item.desugar_match_str(int(at.get("nth", "1")), at.get("eq", "ext_streq"))
        elif k == "name-return":
            item.name_return(at.get("name") or list(at.keys())[0])
        elif k == "contract":
            where = at.get("at", "signature")
            text = e["a"]
            if where == "signature":
                contracted = True
                if twin_false:
                    text = _with_false(text)
                item.insert_at_signature(text)
            elif where == "body-start":
                # code (not ghost) at the very start of the body, e.g. `let mut x = x0;` for a `mut x` parameter that the
                # signature edit renamed to x0; must come before contract text with braces of its own is inserted
                item.prepend_stmts(text, kind="contract")
            elif where.startswith("after-loop:"):
                item.insert_after_loop(int(where[11:]), text)
            elif where.startswith("loop-end:"):
                item.insert_at_loop_end(int(where[9:]), text)
            elif where.startswith("loop:"):
                item.insert_at_loop(int(where[5:]), text)
            elif where == "after-stmt":
                item.insert_after_stmt(at["anchor"], int(at.get("nth", "1")), text)
            elif where in ("before", "after"):
                item.insert_before(at["anchor"], int(at.get("nth", "1")), text, after=(where == "after"))
            else:
                raise SpecError("bad contract location %r" % where)
        else:
            raise SpecError("unknown edit kind %r" % k)
    return contracted


def _with_false(text):
    toks = rsx.tokenize(text)
    d = 0
    for i, t in enumerate(toks):
        if t.s in rsx.OPEN:
            d += 1
        elif t.s in rsx.CLOSE:
            d -= 1
        elif t.s == "ensures" and d == 0 and (i == 0 or toks[i - 1].s != "."):
            return rsx.render(toks[:i + 1]) + " false, " + rsx.render(toks[i + 1:])
    t = text.rstrip()
    if not t.endswith(","):
        t += ","
    return t + "\n ensures false,"


def generate(u, repo, specs_dir, twin_of=None, extra="", prelets=None, inline=None):
    """Returns (text, meta).  meta: items with generated line ranges, edit logs, functions under
    contract.  twin_of = index of the item whose contract gets `ensures false` (vacuity twin)."""
    out = []
    out.append("// GENERATED by /verif/bin/check from %s -- do not edit\n" % u["path"])
    out.append("#![allow(unused)]\nuse vstd::prelude::*;\n")
    for x in u["uses"]:
        out.append(x if x.endswith(";") else x + ";")
        out.append("\n")
    out.append("verus! {\n// every unit assumes a 64-bit target (listed in evidence)\nglobal size_of usize == 8;\n")
    for inc in u["includes"]:
        out.append("// ---- include %s\n" % inc)
        out.append(open("%s/%s" % (specs_dir, inc), encoding="utf-8").read())
        out.append("\n")
    out.append("// ---- prelude (type stubs, external contracts, spec functions)\n")
    out.append(u["prelude"])
    out.append("\n")
    if extra:
        out.append("// ---- constants of /repo referenced by the extracted text (copied verbatim on demand)\n")
        out.append(extra)
        out.append("\n")
    meta = {"items": []}
    # `expect:` lines: token sequences of /repo that the prelude mirrors by hand (constants); if one is
    # no longer present exactly once the unit is undecided (lost anchor), never silently stale
    for ex in u.get("expects", []):
        rel, _, txt = ex.partition("::")
        toks = rsx.tokenize(open(rsx.resolve_source(repo, rel.strip()), encoding="utf-8").read())
        hits = rsx.find_seq(toks, rsx.texts(rsx.tokenize(txt)))
        if len(hits) != 1:
            raise rsx.LostAnchor("expected text `%s` found %d times in %s" % (txt.strip(), len(hits), rel.strip()))
    # `expect-derive: file :: Type :: Trait ...`: the type's own attributes derive the traits and the file has no hand-written
    # `impl Trait for Type` -- checks an assumption such as "V's Eq is structural equality" against the tree under test
    for ex in u.get("expect_derives", []):
        parts = [x.strip() for x in ex.split("::")]
        rel, ty, traits = parts[0], parts[1], parts[2].split()
        toks = rsx.tokenize(open(rsx.resolve_source(repo, rel), encoding="utf-8").read())
        T = rsx.texts(toks)
        pos = [i for i in range(1, len(T)) if T[i] == ty and T[i - 1] in ("struct", "enum")]
        if len(pos) != 1:
            raise rsx.LostAnchor("expect-derive: type `%s` defined %d times in %s" % (ty, len(pos), rel))
        # walk back over `pub` and the attribute groups in front of the definition
        j = pos[0] - 1
        if j > 0 and T[j - 1] == "pub":
            j -= 1
        derived = set()
        while j >= 2 and T[j - 1] == "]":
            d = 0
            k2 = j - 1
            while k2 >= 0:
                if T[k2] == "]":
                    d += 1
                elif T[k2] == "[":
                    d -= 1
                    if d == 0:
                        break
                k2 -= 1
            if k2 < 1 or T[k2 - 1] != "#":
                break
            grp = T[k2:j]
            if len(grp) > 2 and grp[1] == "derive":
                derived |= set(x for x in grp if x[0].isalpha())
            j = k2 - 1
        for tr in traits:
            if tr not in derived:
                raise rsx.LostAnchor("expect-derive: `%s` is not derived for `%s` in %s (hand-written impl? the unit assumes the derived one)" % (tr, ty, rel))
            for i in range(len(T) - 3):
                if T[i] == "impl" and T[i + 1] == tr and T[i + 2] == "for" and T[i + 3] == ty:
                    raise rsx.LostAnchor("expect-derive: hand-written `impl %s for %s` in %s" % (tr, ty, rel))
    for idx, it in enumerate(u["items"]):
        item = rsx.extract(repo, it["relpath"], it["steps"])
        if inline:
            item.inline_helpers(repo, inline, it["steps"])
        contracted = apply_edits(item, it["edits"], twin_false=(twin_of == idx), prelets=(prelets or {}).get(idx))
        item.normalise_wild_closure_params()
        item.drop_plain_logs()
        cur = "".join(out)
        start_line = cur.count("\n") + 1
        out.append("// ---- extracted: %s :: %s (lines %d-%d)\n" % (it["relpath"], item.path, item.line, item.end_line))
        if it["wrap"]:
            out.append(it["wrap"] + " {\n")
            if it["wrap"].startswith("mod "):
                # several same-named functions of sibling modules in one unit: each in its own module, which
                # sees the prelude the way the real module sees its parent (`super::`)
                out.append("use super::*;\nuse vstd::prelude::*;\n")
        out.append(item.text())
        if it["wrap"]:
            out.append("}\n")
        end_line = "".join(out).count("\n")
        fns = [s for s in it["steps"] if s.startswith("fn ")]
        fname = fns[-1][3:].strip() if fns else it["steps"][-1].strip()
        meta["items"].append({"relpath": it["relpath"], "path": item.path, "fn": fname,
                              "label": it["as"] or fname,
                              "src_lines": [item.line, item.end_line],
                              "gen_lines": [start_line, end_line], "contracted": contracted, "steps": it["steps"],
                              "edits": item.log, "original": item.original})
    out.append("// ---- postlude (lemmas)\n")
    out.append(u["postlude"])
    out.append("\n} // verus!\nfn main() {}\n")
    return "".join(out), meta
