"""Run Kani harnesses of /verif/kani on the real crates of /repo, parse results, obtain and
replay counterexamples natively."""
import hashlib
import json
import os
import re
import shutil
import subprocess
import time

ROOT = os.path.dirname(os.path.dirname(os.path.abspath(__file__)))
REPO = os.environ.get("VERIF_REPO", "/repo")
WORK = os.path.join(ROOT, ".work")
KANI_FLAGS = ["-Z", "function-contracts", "-Z", "stubbing"]


WS_TAG = ""     # "" = quick tier; the thorough tier builds in its own workspace so that a long run is not
                # disturbed by quick checks started meanwhile (their `cargo kani` would rebuild the artifacts)


def ws_dir():
    h = hashlib.sha256(REPO.encode()).hexdigest()[:8]
    return os.path.join(WORK, "kani-ws-" + h + WS_TAG)


def env():
    e = dict(os.environ)
    e["CARGO_NET_OFFLINE"] = "true"
    e.pop("RUSTUP_TOOLCHAIN", None)
    return e


def prepare():
    """(Re)write the harness workspace manifest for the current /repo.  Returns (dir, log)."""
    d = ws_dir()
    os.makedirs(os.path.join(d, ".cargo"), exist_ok=True)
    tpl = open(os.path.join(ROOT, "kani", "Cargo.toml.in")).read()
    txt = tpl.replace("@REPO@", REPO).replace("@VERIF@", ROOT)
    p = os.path.join(d, "Cargo.toml")
    if not os.path.exists(p) or open(p).read() != txt:
        open(p, "w").write(txt)
    open(os.path.join(d, ".cargo", "config.toml"), "w").write("[net]\noffline = true\n")
    log = ""
    lock_src = os.path.join(REPO, "Cargo.lock")
    lock_dst = os.path.join(d, "Cargo.lock")
    stamp = os.path.join(d, ".lock-src-sha")
    sha = hashlib.sha256(open(lock_src, "rb").read() + txt.encode()).hexdigest()
    if not os.path.exists(lock_dst) or not os.path.exists(stamp) or open(stamp).read() != sha:
        shutil.copy(lock_src, lock_dst)
        # the lock pins the registry `tracing`; re-resolve onto the no-op shim (offline: only removes)
        r = subprocess.run(["cargo", "update", "--offline", "-p", "tracing"], cwd=d, env=env(),
                           capture_output=True, text=True)
        log += r.stdout + r.stderr
        if r.returncode != 0:
            # lock may not mention tracing in the way we expect; let cargo regenerate offline
            os.remove(lock_dst)
            r = subprocess.run(["cargo", "generate-lockfile", "--offline"], cwd=d, env=env(),
                               capture_output=True, text=True)
            log += r.stdout + r.stderr
        open(stamp, "w").write(sha)
    # cargo decides what to rebuild from file modification times.  A tree whose files were put back with their old
    # times (rsync -a, cp -p, restoring a backup) after a changed version had been built here would be taken as
    # up to date and the STALE build would be verified.  So rebuilding is keyed on content: when the sources of the
    # /repo crates (or the harnesses) differ from what was last built in this workspace, their fingerprints are removed.
    csha = source_content_sha()
    cstamp = os.path.join(d, ".src-content-sha")
    if not os.path.exists(cstamp) or open(cstamp).read() != csha:
        n = drop_fingerprints(os.path.join(d, "target"))
        log += "sources changed since the last build in this workspace: %d fingerprints removed\n" % n
        open(cstamp, "w").write(csha)
    return d, log


REPO_CRATES = ["breakpad-symbols", "minidump", "minidump-common", "minidump-processor", "minidump-unwind", "minidump-synth"]


def source_content_sha():
    h = hashlib.sha256()
    roots = [os.path.join(REPO, c) for c in REPO_CRATES] + [os.path.join(ROOT, "kani", "src"), os.path.join(ROOT, "shims")]
    for root in roots:
        for dp, dns, fns in sorted(os.walk(root)):
            dns[:] = sorted(x for x in dns if x not in ("target", ".git", "testdata", "tests"))
            for fn in sorted(fns):
                if fn.endswith(".rs") or fn == "Cargo.toml":
                    fp = os.path.join(dp, fn)
                    h.update(fp.encode())
                    try:
                        h.update(open(fp, "rb").read())
                    except OSError:
                        pass
    return h.hexdigest()


def drop_fingerprints(target):
    """remove cargo's fingerprints of the /repo crates and of the harness crate (both target layouts)"""
    names = set(REPO_CRATES) | {"vharness"}
    n = 0
    for dp, dns, fns in os.walk(target):
        base = os.path.basename(dp)
        if base == ".fingerprint":
            for x in list(dns):
                if x.rsplit("-", 1)[0] in names:
                    shutil.rmtree(os.path.join(dp, x), ignore_errors=True)
                    n += 1
            dns[:] = []
        elif base == "build":
            for x in list(dns):
                if x in names:
                    for hsh in os.listdir(os.path.join(dp, x)):
                        fpd = os.path.join(dp, x, hsh, "fingerprint")
                        if os.path.isdir(fpd):
                            shutil.rmtree(fpd, ignore_errors=True)
                            n += 1
            dns[:] = [x for x in dns if x not in names and not x.startswith(".")]
            dns[:] = []
        elif base in ("incremental", "deps", "examples", "out"):
            dns[:] = []
    return n


def load_harnesses():
    return json.load(open(os.path.join(ROOT, "kani", "harnesses.json")))


RES_HDR = re.compile(r"^Thread (\d+): Checking harness (\S+?)\.\.\.$")
THR = re.compile(r"^Thread (\d+): ?$")


def parse_terse(out):
    """returns {harness_full_name: {...}}"""
    res = {}
    thread_h = {}
    cur = None
    for ln in out.split("\n"):
        m = RES_HDR.match(ln.strip())
        if m:
            thread_h[m.group(1)] = m.group(2)
            continue
        m = re.match(r"^Checking harness (\S+?)\.\.\.$", ln.strip())
        if m:
            thread_h["-"] = m.group(1)
            cur = res.setdefault(m.group(1), _blank())
            continue
        m = THR.match(ln.strip())
        if m:
            h = thread_h.get(m.group(1))
            cur = res.setdefault(h, _blank()) if h else None
            continue
        if cur is None:
            continue
        cur["raw"] += ln + "\n"
        m = re.match(r"^\s*\*\* (\d+) of (\d+) failed", ln)
        if m:
            cur["failed"] = int(m.group(1))
            cur["checks"] = int(m.group(2))
        m = re.match(r"^\s*\*\* (\d+) of (\d+) cover properties satisfied", ln)
        if m:
            cur["cover_sat"] = int(m.group(1))
            cur["cover_total"] = int(m.group(2))
        m = re.match(r"^Failed Checks: (.*)$", ln)
        if m:
            cur["failed_checks"].append({"desc": m.group(1), "loc": ""})
        m = re.match(r"^\s*File: \"(.*?)\", line (\d+), in (.*)$", ln)
        if m and cur["failed_checks"] and not cur["failed_checks"][-1]["loc"]:
            cur["failed_checks"][-1]["loc"] = "%s:%s in %s" % (m.group(1), m.group(2), m.group(3))
        m = re.match(r"^VERIFICATION:- (\w+)", ln)
        if m:
            cur["verdict"] = m.group(1)
        m = re.match(r"^Verification Time: ([0-9.]+)s", ln)
        if m:
            cur["time_s"] = float(m.group(1))
            cur = None
            continue
        if "CBMC failed" in ln or "out of memory" in ln.lower() or "timed out" in ln.lower():
            cur["tool_error"] = ln.strip()
    return res


def _blank():
    return {"verdict": None, "failed": None, "checks": None, "cover_sat": None, "cover_total": None,
            "failed_checks": [], "time_s": None, "raw": "", "tool_error": None}


def run(names, jobs=8, timeout=3600):
    import fcntl
    os.makedirs(WORK, exist_ok=True)
    # one cargo-kani at a time per workspace: a second invocation would rebuild / overwrite the goto binaries the
    # first one is still feeding to cbmc
    lockf = open(os.path.join(WORK, "kani-ws%s.lock" % WS_TAG), "w")
    fcntl.flock(lockf, fcntl.LOCK_EX)
    try:
        return _run_locked(names, jobs, timeout)
    finally:
        fcntl.flock(lockf, fcntl.LOCK_UN)
        lockf.close()


BATCH = 100000   # harnesses per cargo-kani invocation.  One invocation: the driver's resident size (30-40 GB) did not
                 # shrink with batches of 48, and every invocation pays the metadata load again


_QUAL = {}


def qualified(name):
    """module-qualified harness name (`c17_paths::k_leafname`): the module is the file of kani/src that defines it"""
    if not _QUAL:
        import glob
        for f in glob.glob(os.path.join(ROOT, "kani", "src", "*.rs")):
            mod = os.path.basename(f)[:-3]
            for m in re.finditer(r"\b(k_[A-Za-z0-9_]+)\b", open(f).read()):
                _QUAL.setdefault(m.group(1), mod)
    return "%s::%s" % (_QUAL[name], name) if name in _QUAL else name


def _run_locked(names, jobs, timeout):
    d, log = prepare()
    import signal
    t0 = time.time()
    outs = []
    cmds = []
    rc = 0
    for b in range(0, max(len(names), 1), BATCH):
        batch = names[b:b + BATCH]
        # `--harness X` is a substring filter (k_leafname would also select k_leafname7, k_c18_arm64_x1 also x10..x19):
        # pass module-qualified names with --exact so that a tier runs exactly the harnesses it lists
        cmd = ["cargo", "kani"] + KANI_FLAGS + ["--output-format", "terse", "-j", str(jobs), "--exact"]
        for n in batch:
            cmd += ["--harness", qualified(n)]
        cmds.append(" ".join(cmd))
        left = timeout - (time.time() - t0)
        if left <= 0:
            outs.append("\nTIMEOUT after %ds" % timeout)
            rc = 124
            break
        # own process group, so that a timeout also ends the cbmc children cargo-kani started
        pr = subprocess.Popen(cmd, cwd=d, env=env(), stdout=subprocess.PIPE, stderr=subprocess.STDOUT, text=True,
                              start_new_session=True)
        try:
            out, _ = pr.communicate(timeout=left)
            if pr.returncode != 0:
                rc = pr.returncode
        except subprocess.TimeoutExpired:
            try:
                os.killpg(pr.pid, signal.SIGKILL)
            except Exception:
                pass
            out, _ = pr.communicate()
            out = (out or "") + "\nTIMEOUT after %ds" % timeout
            rc = 124
        outs.append(out or "")
        if rc == 124:
            break
    out = "\n".join(outs)
    wall = time.time() - t0
    res = parse_terse(out)
    compile_error = None
    if "error: could not compile" in out or "Failed to compile" in out or "internal compiler error" in out:
        m = re.search(r"^(error(\[E\d+\])?: .*)$", out, re.M)
        compile_error = m.group(1) if m else "compile error"
    return {"cmd": " ; ".join(cmds), "cwd": d, "rc": rc, "wall_s": wall, "results": res,
            "compile_error": compile_error, "out_tail": out[-6000:], "prepare_log": log}


def playback(name, timeout=600):   # a counterexample tape is a bonus: the VIOLATION is reported without one when this times out
    """run one failing harness with concrete playback; return list of {check, tape_hex}"""
    d, _ = prepare()
    cmd = ["cargo", "kani"] + KANI_FLAGS + ["-Z", "concrete-playback", "--concrete-playback=print",
                                             "--harness", name]
    try:
        p = subprocess.run(cmd, cwd=d, env=env(), capture_output=True, text=True, timeout=timeout)
        out = p.stdout + "\n" + p.stderr
    except subprocess.TimeoutExpired:
        return [], "TIMEOUT"
    tapes = []
    for blk in re.finditer(r"/// Check for `(\w+)`: \"(.*?)\"\s*\n#\[test\]\nfn (\w+)\(\) \{(.*?)kani::concrete_playback_run",
                           out, re.S):
        body = blk.group(4)
        tape = []
        for v in re.finditer(r"vec!\[([0-9, ]*)\],", body):
            s = v.group(1).strip()
            if s:
                tape += [int(x) for x in s.split(",") if x.strip() != ""]
        if blk.group(1) == "cover":
            continue
        tapes.append({"check": blk.group(2), "tape_hex": bytes(tape).hex()})
    return tapes, out[-4000:]


def build_native(timeout=1800):
    d, _ = prepare()
    p = subprocess.run(["cargo", "build", "--offline", "--bin", "replay"], cwd=d, env=env(),
                       capture_output=True, text=True, timeout=timeout)
    return p.returncode == 0, (p.stdout + p.stderr)[-3000:], os.path.join(d, "target", "debug", "replay")


def replay_native(short_name, tape_hex, timeout=120):
    ok, log, binp = build_native()
    if not ok:
        return {"built": False, "log": log}
    e = env()
    e["RUST_BACKTRACE"] = "0"
    p = subprocess.run([binp, short_name, tape_hex], capture_output=True, text=True, timeout=timeout, env=e)
    return {"built": True, "rc": p.returncode, "stdout": p.stdout[-3000:], "stderr": p.stderr[-3000:],
            "cmd": "%s %s %s" % (binp, short_name, tape_hex)}
