// std Option methods taking closures without a vstd specification (documented behaviour, assumed)
pub assume_specification<T, F: FnOnce() -> Option<T>> [std::option::Option::<T>::or_else] (o: Option<T>, f: F) -> (r: Option<T>)
    requires o is None ==> f.requires(()),
    ensures match o { Some(_) => r == o, None => f.ensures((), r) };
