// Shared type stubs and spec functions for range tables (C08 and users of its contract).
// `Range<T>` mirrors range_map::Range (two public fields, inclusive end); `Range::new` carries the
// dependency's panic condition as a precondition, so "never panics" is a proved obligation at
// every call site.

pub struct Range<T> {
    pub start: T,
    pub end: T,
}

impl<T: Copy> Clone for Range<T> {
    fn clone(&self) -> (r: Self)
        ensures r == *self,
    {
        Range { start: self.start, end: self.end }
    }
}
impl<T: Copy> Copy for Range<T> {}

impl Range<u64> {
    // range_map::Range::new panics iff start > end
    pub fn new(start: u64, end: u64) -> (r: Range<u64>)
        requires start <= end,
        ensures r.start == start, r.end == end,
    {
        Range { start, end }
    }

    pub fn contains(&self, x: u64) -> (r: bool)
        ensures r == rcontains(*self, x),
    {
        self.start <= x && x <= self.end
    }
}

pub open spec fn rcontains(r: Range<u64>, a: u64) -> bool {
    r.start <= a && a <= r.end
}

pub open spec fn rintersects(r: Range<u64>, q: Range<u64>) -> bool {
    r.start <= q.end && q.start <= r.end
}

// derived Ord of range_map::Range: lexicographic (start, end)
pub open spec fn range_le(a: Range<u64>, b: Range<u64>) -> bool {
    a.start < b.start || (a.start == b.start && a.end <= b.end)
}

// derived Ord of Option<Range>: None < Some(_)
pub open spec fn opt_le(a: Option<Range<u64>>, b: Option<Range<u64>>) -> bool {
    match (a, b) {
        (None, _) => true,
        (Some(_), None) => false,
        (Some(x), Some(y)) => range_le(x, y),
    }
}

pub open spec fn wf_ranges<V>(s: Seq<(Range<u64>, V)>) -> bool {
    forall|i: int| 0 <= i < s.len() ==> (#[trigger] s[i]).0.start <= s[i].0.end
}

pub open spec fn sorted_ranges<V>(s: Seq<(Range<u64>, V)>) -> bool {
    forall|i: int, j: int| 0 <= i <= j < s.len() ==> range_le((#[trigger] s[i]).0, (#[trigger] s[j]).0)
}

// the representation invariant of range_map::RangeMap's vector: sorted by address, every range
// well formed, no two ranges share an address
pub open spec fn disjoint_sorted<V>(s: Seq<(Range<u64>, V)>) -> bool {
    &&& wf_ranges(s)
    &&& forall|i: int, j: int| 0 <= i < j < s.len() ==> (#[trigger] s[i]).0.end < (#[trigger] s[j]).0.start
}

// (a, v) is covered by one of the first n entries of s
pub open spec fn covered_by<V>(s: Seq<(Range<u64>, V)>, n: int, a: u64, v: V) -> bool {
    exists|j: int| 0 <= j < n && j < s.len() && (#[trigger] s[j]).1 == v && rcontains(s[j].0, a)
}

// entry j of s intersects no other entry of s
pub open spec fn isolated<V>(s: Seq<(Range<u64>, V)>, j: int) -> bool {
    forall|k: int| 0 <= k < s.len() && k != j ==> !rintersects((#[trigger] s[k]).0, s[j].0)
}

// some entry of `out` has the value of s[j] and a range that includes s[j]'s
pub open spec fn kept<V>(out: Seq<(Range<u64>, V)>, e: (Range<u64>, V)) -> bool {
    exists|k: int| 0 <= k < out.len() && (#[trigger] out[k]).1 == e.1
        && out[k].0.start <= e.0.start && e.0.end <= out[k].0.end
}

// Abstract view of range_map::RangeMap<u64, V>: the sorted vector it stores.
pub struct RangeMap<T, V> {
    pub elts: Vec<(Range<T>, V)>,
}

// Contract of the dependency (range-map 0.2.0 `try_from_iter` + `normalize`), proved on the crate's source
// by unit dep_range_map: on a vector that is already sorted, well formed, pairwise disjoint and without
// touching equal-valued neighbours nothing is discarded or merged, so the
// `.unwrap()` the real code applies cannot panic; the resulting map answers `get(a)` with the value
// of the unique input entry containing `a` (normalize only joins touching equal-valued entries).
// The *precondition* is the panic condition of `try_from_iter(..).unwrap()` and is proved at the
// call site.
pub open spec fn sat1(x: u64) -> u64 { if x == u64::MAX { x } else { (x + 1) as u64 } }
// no two neighbours that range_map's normalize would merge: touching equal-valued ranges
pub open spec fn no_touch_eq<V>(e: Seq<(Range<u64>, V)>) -> bool {
    forall|i: int| 0 <= i < e.len() - 1 ==> !((#[trigger] e[i + 1]).0.start <= sat1(e[i].0.end) && e[i].1 == e[i + 1].1)
}
#[verifier::external_body]
pub fn ext_rangemap_from_sorted<V>(v: Vec<(Range<u64>, V)>) -> (m: RangeMap<u64, V>)
    requires disjoint_sorted(v@), no_touch_eq(v@),     // proved sufficient on the crate's source: unit dep_range_map
    ensures m.elts@ == v@,
{
    unimplemented!()
}

// ASSUMED: V's `Eq` is lawful (value equality).  True for every instantiation in /repo
// (usize indices and structs with derived Eq).
#[verifier::external_body]
pub fn ext_eq<V>(a: &V, b: &V) -> (r: bool)
    ensures r == (*a == *b),
{
    unimplemented!()
}

// ASSUMED: std::cmp::max on u64.
#[verifier::external_body]
pub fn ext_max_u64(a: u64, b: u64) -> (r: u64)
    ensures r == (if a >= b { a } else { b }),
{
    unimplemented!()
}
