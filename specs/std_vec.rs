// std slice/Vec methods without a vstd specification (documented behaviour, assumed)
pub assume_specification<T>[<[T]>::reverse](s: &mut [T])
    ensures final(s)@ == old(s)@.reverse();
