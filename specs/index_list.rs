// Shared specs for "Vec of records + RangeMap<u64, usize> index" lists (module list, memory list,
// memory-info list, Linux maps): the index is built by into_rangemap_safe from (record range, position).
// Requires range_view.rs and range_lemmas.rs.

pub open spec fn index_input(rs: Seq<Option<Range<u64>>>) -> Seq<OEntry<usize>> {
    Seq::new(rs.len(), |i: int| (rs[i], i as usize))
}

// the index is what into_rangemap_safe guarantees for that input (C08 (1)-(3))
pub open spec fn index_ok(idx: Seq<Entry<usize>>, rs: Seq<Option<Range<u64>>>) -> bool {
    c08_post(idx, index_input(rs))
}

// Contract of the dependency range_map::RangeMap::get (binary search over the sorted, disjoint vector):
// Some(v) iff some stored range contains the address, and v is that entry's value.  Proved on the crate's
// source by unit dep_range_map, given the representation invariant required here.
impl<V> RangeMap<u64, V> {
    #[verifier::external_body]
    pub fn get(&self, a: u64) -> (r: Option<&V>)
        requires disjoint_sorted(self.elts@),     // RangeMap's representation invariant; proved sufficient in unit dep_range_map
        ensures
            match r {
                Some(v) => exists|k: int| 0 <= k < self.elts@.len() && (#[trigger] self.elts@[k]).1 == *v && rcontains(self.elts@[k].0, a),
                None => forall|k: int| 0 <= k < self.elts@.len() ==> !rcontains((#[trigger] self.elts@[k]).0, a),
            },
    { unimplemented!() }
}

// RangeMap::ranges_values(): iteration over the stored vector in address order (materialised as the vector)
impl<V> RangeMap<u64, V> {
    #[verifier::external_body]
    pub fn ranges_values(&self) -> (r: &Vec<(Range<u64>, V)>)
        ensures r@ == self.elts@,
    { unimplemented!() }
}

// IntoRangeMapSafe::into_rangemap_safe at Self = Vec<(Option<Range<u64>>, usize)>: contract proved in unit
// c08_traits_into_rangemap_safe
#[verifier::external_body]
pub fn ext_into_rangemap_safe(v: Vec<(Option<Range<u64>>, usize)>) -> (out: RangeMap<u64, usize>)
    requires owf(v@),
    ensures c08_post(out.elts@, v@),
{ unimplemented!() }

// every hit of the index names an in-bounds record whose own range contains the address
pub proof fn lemma_index_hit(idx: Seq<Entry<usize>>, rs: Seq<Option<Range<u64>>>, k: int, a: u64)
    requires index_ok(idx, rs), 0 <= k < idx.len(), rcontains(idx[k].0, a), rs.len() <= usize::MAX,
    ensures idx[k].1 < rs.len(), rs[idx[k].1 as int] is Some, rcontains(rs[idx[k].1 as int].unwrap(), a),
{
    let inp = index_input(rs);
    assert(ocovered(inp, inp.len() as int, a, idx[k].1));
    let j = choose|j: int| 0 <= j < inp.len() && j < inp.len() && (#[trigger] inp[j]).0 is Some && inp[j].1 == idx[k].1 && rcontains(inp[j].0.unwrap(), a);
    assert(inp[j] == (rs[j], j as usize));
}

// every entry of the index names an in-bounds record (each stored range is non-empty)
pub proof fn lemma_index_bounds(idx: Seq<Entry<usize>>, rs: Seq<Option<Range<u64>>>)
    requires index_ok(idx, rs), rs.len() <= usize::MAX,
    ensures forall|k: int| 0 <= k < idx.len() ==> (#[trigger] idx[k]).1 < rs.len(),
{
    assert forall|k: int| 0 <= k < idx.len() implies (#[trigger] idx[k]).1 < rs.len() by {
        assert(rcontains(idx[k].0, idx[k].0.start));
        lemma_index_hit(idx, rs, k, idx[k].0.start);
    }
}

// a record that overlaps no other record is found on every address of its range
pub proof fn lemma_index_miss(idx: Seq<Entry<usize>>, rs: Seq<Option<Range<u64>>>, i: int, a: u64)
    requires index_ok(idx, rs), 0 <= i < rs.len(), oisolated(index_input(rs), i), rcontains(rs[i].unwrap(), a),
    ensures exists|k: int| 0 <= k < idx.len() && rcontains((#[trigger] idx[k]).0, a),
{
    let inp = index_input(rs);
    assert(okept(idx, inp[i]));
    let k = choose|k: int| 0 <= k < idx.len() && (#[trigger] idx[k]).1 == inp[i].1 && idx[k].0.start <= inp[i].0.unwrap().start && inp[i].0.unwrap().end <= idx[k].0.end;
    assert(rcontains(idx[k].0, a));
}
