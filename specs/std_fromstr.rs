// <i64 as FromStr>::from_str / <u64 as FromStr>::from_str: partial functions of the text (uninterpreted
// i64_lit / u64_lit); needs `use core::str::FromStr;` in the unit
#[verifier::external_type_specification]
#[verifier::external_body]
pub struct ExParseIntError(core::num::ParseIntError);
pub uninterp spec fn i64_lit(t: Seq<char>) -> Option<i64>;
pub uninterp spec fn u64_lit(t: Seq<char>) -> Option<u64>;
pub assume_specification [<i64 as core::str::FromStr>::from_str] (t: &str) -> (r: Result<i64, core::num::ParseIntError>)
    ensures r is Ok <==> i64_lit(t@) is Some, r is Ok ==> r->Ok_0 == i64_lit(t@).unwrap();
pub assume_specification [<u64 as core::str::FromStr>::from_str] (t: &str) -> (r: Result<u64, core::num::ParseIntError>)
    ensures r is Ok <==> u64_lit(t@) is Some, r is Ok ==> r->Ok_0 == u64_lit(t@).unwrap();
pub uninterp spec fn i32_lit(t: Seq<char>) -> Option<i32>;
pub uninterp spec fn u32_lit(t: Seq<char>) -> Option<u32>;
pub assume_specification [<i32 as core::str::FromStr>::from_str] (t: &str) -> (r: Result<i32, core::num::ParseIntError>)
    ensures r is Ok <==> i32_lit(t@) is Some, r is Ok ==> r->Ok_0 == i32_lit(t@).unwrap();
pub assume_specification [<u32 as core::str::FromStr>::from_str] (t: &str) -> (r: Result<u32, core::num::ParseIntError>)
    ensures r is Ok <==> u32_lit(t@) is Some, r is Ok ==> r->Ok_0 == u32_lit(t@).unwrap();
