// Spec functions and step lemmas for both copies of `into_rangemap_safe` (C08).
// The *input* is viewed as a sequence of (Option<Range>, V): the trait copy really has optional
// ranges (None = "no valid range for this entry"), the parser copy is lifted with `Some`.
// `n` is the number of input entries processed so far; `vec` the output built so far.

pub type OEntry<V> = (Option<Range<u64>>, V);
pub type Entry<V> = (Range<u64>, V);

pub open spec fn owf<V>(s: Seq<OEntry<V>>) -> bool {
    forall|i: int| 0 <= i < s.len() && (#[trigger] s[i]).0 is Some ==> s[i].0.unwrap().start <= s[i].0.unwrap().end
}

pub open spec fn osorted<V>(s: Seq<OEntry<V>>) -> bool {
    forall|i: int, j: int| 0 <= i <= j < s.len() ==> opt_le((#[trigger] s[i]).0, (#[trigger] s[j]).0)
}

pub open spec fn is_perm_of<T>(s: Seq<T>, orig: Seq<T>, p: Seq<int>, q: Seq<int>) -> bool {
    &&& s.len() == orig.len()
    &&& p.len() == orig.len()
    &&& q.len() == orig.len()
    &&& forall|i: int| 0 <= i < orig.len() ==> 0 <= (#[trigger] p[i]) < s.len() && s[p[i]] == orig[i] && q[p[i]] == i
    &&& forall|k: int| 0 <= k < s.len() ==> 0 <= (#[trigger] q[k]) < orig.len() && p[q[k]] == k
}

pub open spec fn perm_of<T>(s: Seq<T>, orig: Seq<T>) -> bool {
    exists|p: Seq<int>, q: Seq<int>| is_perm_of(s, orig, p, q)
}

// address a with value v is covered by one of the first n input entries
pub open spec fn ocovered<V>(s: Seq<OEntry<V>>, n: int, a: u64, v: V) -> bool {
    exists|j: int| 0 <= j < n && j < s.len() && (#[trigger] s[j]).0 is Some && s[j].1 == v && rcontains(s[j].0.unwrap(), a)
}

// input entry j has a range and intersects no other input entry's range
pub open spec fn oisolated<V>(s: Seq<OEntry<V>>, j: int) -> bool {
    &&& s[j].0 is Some
    &&& forall|k: int| 0 <= k < s.len() && k != j && (#[trigger] s[k]).0 is Some ==> !rintersects(s[k].0.unwrap(), s[j].0.unwrap())
}

pub open spec fn okept<V>(out: Seq<Entry<V>>, e: OEntry<V>) -> bool {
    exists|k: int| 0 <= k < out.len() && (#[trigger] out[k]).1 == e.1
        && out[k].0.start <= e.0.unwrap().start && e.0.unwrap().end <= out[k].0.end
}

#[verifier::opaque]
pub open spec fn sound_wrt<V>(vec: Seq<Entry<V>>, s: Seq<OEntry<V>>, n: int) -> bool {
    forall|k: int, a: u64| 0 <= k < vec.len() && rcontains((#[trigger] vec[k]).0, a) ==> #[trigger] ocovered(s, n, a, vec[k].1)
}

// some processed input entry ends exactly at e
pub open spec fn end_attained<V>(s: Seq<OEntry<V>>, n: int, e: u64) -> bool {
    exists|j: int| 0 <= j < n && j < s.len() && (#[trigger] s[j]).0 is Some && s[j].0.unwrap().end == e
}

#[verifier::opaque]
pub open spec fn ends_attained<V>(vec: Seq<Entry<V>>, s: Seq<OEntry<V>>, n: int) -> bool {
    forall|k: int| 0 <= k < vec.len() ==> end_attained(s, n, (#[trigger] vec[k]).0.end)
}

#[verifier::opaque]
pub open spec fn complete_wrt<V>(vec: Seq<Entry<V>>, s: Seq<OEntry<V>>, n: int) -> bool {
    forall|j: int| 0 <= j < n && j < s.len() && oisolated(s, j) ==> okept(vec, #[trigger] s[j])
}

// The three postconditions of C08 over the whole view, relative to the caller's input.
pub open spec fn c08_post<V>(out: Seq<Entry<V>>, input: Seq<OEntry<V>>) -> bool {
    // (1) valid RangeMap vector: building the lookup table never fails; iteration by address is sorted and non-overlapping
    &&& disjoint_sorted(out)
    // (2) soundness: every address of every output entry lies inside an input entry carrying that value
    &&& forall|k: int, a: u64| 0 <= k < out.len() && rcontains((#[trigger] out[k]).0, a)
            ==> #[trigger] ocovered(input, input.len() as int, a, out[k].1)
    // (3) completeness: an input entry that intersects no other input entry is served, with its value, on all its addresses
    &&& forall|i: int| 0 <= i < input.len() && oisolated(input, i) ==> okept(out, #[trigger] input[i])
}

pub proof fn lemma_init<V>(s: Seq<OEntry<V>>)
    ensures
        sound_wrt(Seq::<Entry<V>>::empty(), s, 0),
        ends_attained(Seq::<Entry<V>>::empty(), s, 0),
        complete_wrt(Seq::<Entry<V>>::empty(), s, 0),
{
    reveal(sound_wrt); reveal(ends_attained); reveal(complete_wrt);
}

// an input entry without a range is skipped: nothing to cover, nothing to keep
pub proof fn lemma_none_step<V>(vec0: Seq<Entry<V>>, s: Seq<OEntry<V>>, n0: int, vec1: Seq<Entry<V>>)
    requires
        0 <= n0 < s.len(), s[n0].0 is None, vec1 =~= vec0,
        sound_wrt(vec0, s, n0), ends_attained(vec0, s, n0), complete_wrt(vec0, s, n0),
    ensures
        sound_wrt(vec1, s, n0 + 1), ends_attained(vec1, s, n0 + 1), complete_wrt(vec1, s, n0 + 1),
{
    reveal(sound_wrt); reveal(ends_attained); reveal(complete_wrt);
    assert forall|k: int, a: u64| 0 <= k < vec1.len() && rcontains((#[trigger] vec1[k]).0, a) implies #[trigger] ocovered(s, n0 + 1, a, vec1[k].1) by {
        assert(ocovered(s, n0, a, vec0[k].1));
        let j = choose|j: int| 0 <= j < n0 && j < s.len() && (#[trigger] s[j]).0 is Some && s[j].1 == vec0[k].1 && rcontains(s[j].0.unwrap(), a);
        assert(0 <= j < n0 + 1 && s[j].0 is Some && s[j].1 == vec1[k].1 && rcontains(s[j].0.unwrap(), a));
    }
    assert forall|k: int| 0 <= k < vec1.len() implies end_attained(s, n0 + 1, (#[trigger] vec1[k]).0.end) by {
        assert(end_attained(s, n0, vec0[k].0.end));
        let j = choose|j: int| 0 <= j < n0 && j < s.len() && (#[trigger] s[j]).0 is Some && s[j].0.unwrap().end == vec0[k].0.end;
        assert(0 <= j < n0 + 1 && s[j].0 is Some && s[j].0.unwrap().end == vec1[k].0.end);
    }
    assert forall|j: int| 0 <= j < n0 + 1 && j < s.len() && oisolated(s, j) implies okept(vec1, #[trigger] s[j]) by {
        assert(j < n0);
    }
}

pub proof fn lemma_drop_step<V>(vec0: Seq<Entry<V>>, s: Seq<OEntry<V>>, n0: int, vec1: Seq<Entry<V>>)
    requires
        0 <= n0 < s.len(), owf(s), osorted(s), s[n0].0 is Some,
        sound_wrt(vec0, s, n0), ends_attained(vec0, s, n0), complete_wrt(vec0, s, n0),
        vec1 =~= vec0, vec0.len() > 0,
        s[n0].0.unwrap().start <= vec0[vec0.len() - 1].0.end,
    ensures
        sound_wrt(vec1, s, n0 + 1), ends_attained(vec1, s, n0 + 1), complete_wrt(vec1, s, n0 + 1),
{
    reveal(sound_wrt); reveal(ends_attained); reveal(complete_wrt);
    assert forall|k: int, a: u64| 0 <= k < vec1.len() && rcontains((#[trigger] vec1[k]).0, a) implies #[trigger] ocovered(s, n0 + 1, a, vec1[k].1) by {
        assert(ocovered(s, n0, a, vec0[k].1));
        let j = choose|j: int| 0 <= j < n0 && j < s.len() && (#[trigger] s[j]).0 is Some && s[j].1 == vec0[k].1 && rcontains(s[j].0.unwrap(), a);
        assert(0 <= j < n0 + 1 && s[j].0 is Some && s[j].1 == vec1[k].1 && rcontains(s[j].0.unwrap(), a));
    }
    assert forall|k: int| 0 <= k < vec1.len() implies end_attained(s, n0 + 1, (#[trigger] vec1[k]).0.end) by {
        assert(end_attained(s, n0, vec0[k].0.end));
        let j = choose|j: int| 0 <= j < n0 && j < s.len() && (#[trigger] s[j]).0 is Some && s[j].0.unwrap().end == vec0[k].0.end;
        assert(0 <= j < n0 + 1 && s[j].0 is Some && s[j].0.unwrap().end == vec1[k].0.end);
    }
    // the dropped entry s[n0] is not isolated: it intersects the input entry that attains last.end
    let last = vec0.len() - 1;
    assert(end_attained(s, n0, vec0[last].0.end));
    let jw = choose|j: int| 0 <= j < n0 && j < s.len() && (#[trigger] s[j]).0 is Some && s[j].0.unwrap().end == vec0[last].0.end;
    assert(opt_le(s[jw].0, s[n0].0));
    assert(rintersects(s[jw].0.unwrap(), s[n0].0.unwrap()));
    assert(!oisolated(s, n0));
    assert forall|j: int| 0 <= j < n0 + 1 && j < s.len() && oisolated(s, j) implies okept(vec1, #[trigger] s[j]) by {
        assert(j < n0);
    }
}

pub open spec fn merge_pre<V>(vec0: Seq<Entry<V>>, s: Seq<OEntry<V>>, n0: int, vec1: Seq<Entry<V>>) -> bool {
    let last = vec0.len() - 1;
    &&& 0 <= n0 < s.len() && owf(s) && osorted(s) && s[n0].0 is Some
    &&& vec0.len() > 0 && vec1.len() == vec0.len()
    &&& forall|k: int| 0 <= k < vec0.len() - 1 ==> vec1[k] == vec0[k]
    &&& vec1[last].1 == vec0[last].1
    &&& vec1[last].1 == s[n0].1
    &&& vec1[last].0.start == vec0[last].0.start
    &&& vec0[last].0.start <= s[n0].0.unwrap().start
    &&& (vec1[last].0.end == s[n0].0.unwrap().end || vec1[last].0.end == vec0[last].0.end)
    &&& vec1[last].0.end >= s[n0].0.unwrap().end
    &&& vec1[last].0.end >= vec0[last].0.end
    &&& (s[n0].0.unwrap().start <= vec0[last].0.end || s[n0].0.unwrap().start == vec0[last].0.end + 1)
}

pub proof fn lemma_merge_sound<V>(vec0: Seq<Entry<V>>, s: Seq<OEntry<V>>, n0: int, vec1: Seq<Entry<V>>)
    requires merge_pre(vec0, s, n0, vec1), sound_wrt(vec0, s, n0),
    ensures sound_wrt(vec1, s, n0 + 1),
{
    reveal(sound_wrt);
    let last = vec0.len() - 1;
    assert forall|k: int, a: u64| 0 <= k < vec1.len() && rcontains((#[trigger] vec1[k]).0, a) implies #[trigger] ocovered(s, n0 + 1, a, vec1[k].1) by {
        if k < last || a <= vec0[last].0.end {
            assert(rcontains(vec0[k].0, a));
            assert(ocovered(s, n0, a, vec0[k].1));
            let j = choose|j: int| 0 <= j < n0 && j < s.len() && (#[trigger] s[j]).0 is Some && s[j].1 == vec0[k].1 && rcontains(s[j].0.unwrap(), a);
            assert(0 <= j < n0 + 1 && s[j].0 is Some && s[j].1 == vec1[k].1 && rcontains(s[j].0.unwrap(), a));
        } else {
            assert(rcontains(s[n0].0.unwrap(), a));
            assert(0 <= n0 < n0 + 1 && s[n0].0 is Some && s[n0].1 == vec1[k].1 && rcontains(s[n0].0.unwrap(), a));
        }
    }
}

pub proof fn lemma_merge_ends<V>(vec0: Seq<Entry<V>>, s: Seq<OEntry<V>>, n0: int, vec1: Seq<Entry<V>>)
    requires merge_pre(vec0, s, n0, vec1), ends_attained(vec0, s, n0),
    ensures ends_attained(vec1, s, n0 + 1),
{
    reveal(ends_attained);
    let last = vec0.len() - 1;
    assert forall|k: int| 0 <= k < vec1.len() implies end_attained(s, n0 + 1, (#[trigger] vec1[k]).0.end) by {
        if k < last || vec1[last].0.end == vec0[last].0.end {
            assert(end_attained(s, n0, vec0[k].0.end));
            let j = choose|j: int| 0 <= j < n0 && j < s.len() && (#[trigger] s[j]).0 is Some && s[j].0.unwrap().end == vec0[k].0.end;
            assert(0 <= j < n0 + 1 && s[j].0 is Some && s[j].0.unwrap().end == vec1[k].0.end);
        } else {
            assert(s[n0].0 is Some && s[n0].0.unwrap().end == vec1[k].0.end);
        }
    }
}

pub proof fn lemma_merge_complete<V>(vec0: Seq<Entry<V>>, s: Seq<OEntry<V>>, n0: int, vec1: Seq<Entry<V>>)
    requires merge_pre(vec0, s, n0, vec1), complete_wrt(vec0, s, n0),
    ensures complete_wrt(vec1, s, n0 + 1),
{
    reveal(complete_wrt);
    let last = vec0.len() - 1;
    assert forall|j: int| 0 <= j < n0 + 1 && j < s.len() && oisolated(s, j) implies okept(vec1, #[trigger] s[j]) by {
        if j < n0 {
            assert(okept(vec0, s[j]));
            let k = choose|k: int| 0 <= k < vec0.len() && (#[trigger] vec0[k]).1 == s[j].1 && vec0[k].0.start <= s[j].0.unwrap().start && s[j].0.unwrap().end <= vec0[k].0.end;
            assert(vec1[k].1 == s[j].1 && vec1[k].0.start <= s[j].0.unwrap().start && s[j].0.unwrap().end <= vec1[k].0.end);
        } else {
            assert(vec1[last].1 == s[j].1 && vec1[last].0.start <= s[j].0.unwrap().start && s[j].0.unwrap().end <= vec1[last].0.end);
        }
    }
}

pub proof fn lemma_push_step<V>(vec0: Seq<Entry<V>>, s: Seq<OEntry<V>>, n0: int, vec1: Seq<Entry<V>>)
    requires
        0 <= n0 < s.len(), s[n0].0 is Some,
        sound_wrt(vec0, s, n0), ends_attained(vec0, s, n0), complete_wrt(vec0, s, n0),
        vec1 =~= vec0.push((s[n0].0.unwrap(), s[n0].1)),
    ensures
        sound_wrt(vec1, s, n0 + 1), ends_attained(vec1, s, n0 + 1), complete_wrt(vec1, s, n0 + 1),
{
    reveal(sound_wrt); reveal(ends_attained); reveal(complete_wrt);
    let last = vec0.len() as int;
    assert forall|k: int, a: u64| 0 <= k < vec1.len() && rcontains((#[trigger] vec1[k]).0, a) implies #[trigger] ocovered(s, n0 + 1, a, vec1[k].1) by {
        if k < last {
            assert(vec1[k] == vec0[k]);
            assert(ocovered(s, n0, a, vec0[k].1));
            let j = choose|j: int| 0 <= j < n0 && j < s.len() && (#[trigger] s[j]).0 is Some && s[j].1 == vec0[k].1 && rcontains(s[j].0.unwrap(), a);
            assert(0 <= j < n0 + 1 && s[j].0 is Some && s[j].1 == vec1[k].1 && rcontains(s[j].0.unwrap(), a));
        } else {
            assert(0 <= n0 < n0 + 1 && s[n0].0 is Some && s[n0].1 == vec1[k].1 && rcontains(s[n0].0.unwrap(), a));
        }
    }
    assert forall|k: int| 0 <= k < vec1.len() implies end_attained(s, n0 + 1, (#[trigger] vec1[k]).0.end) by {
        if k < last {
            assert(vec1[k] == vec0[k]);
            assert(end_attained(s, n0, vec0[k].0.end));
            let j = choose|j: int| 0 <= j < n0 && j < s.len() && (#[trigger] s[j]).0 is Some && s[j].0.unwrap().end == vec0[k].0.end;
            assert(0 <= j < n0 + 1 && s[j].0 is Some && s[j].0.unwrap().end == vec1[k].0.end);
        } else {
            assert(s[n0].0 is Some && s[n0].0.unwrap().end == vec1[k].0.end);
        }
    }
    assert forall|j: int| 0 <= j < n0 + 1 && j < s.len() && oisolated(s, j) implies okept(vec1, #[trigger] s[j]) by {
        if j < n0 {
            assert(okept(vec0, s[j]));
            let k = choose|k: int| 0 <= k < vec0.len() && (#[trigger] vec0[k]).1 == s[j].1 && vec0[k].0.start <= s[j].0.unwrap().start && s[j].0.unwrap().end <= vec0[k].0.end;
            assert(vec1[k] == vec0[k]);
            assert(vec1[k].1 == s[j].1 && vec1[k].0.start <= s[j].0.unwrap().start && s[j].0.unwrap().end <= vec1[k].0.end);
        } else {
            assert(vec1[last].1 == s[j].1 && vec1[last].0.start <= s[j].0.unwrap().start && s[j].0.unwrap().end <= vec1[last].0.end);
        }
    }
}

// from the sorted permutation back to the caller's input
pub proof fn lemma_transfer<V>(vec: Seq<Entry<V>>, s: Seq<OEntry<V>>, orig: Seq<OEntry<V>>)
    requires
        perm_of(s, orig), disjoint_sorted(vec),
        sound_wrt(vec, s, s.len() as int), complete_wrt(vec, s, s.len() as int),
    ensures
        c08_post(vec, orig),
{
    reveal(sound_wrt); reveal(complete_wrt);
    let (p, q) = choose|p: Seq<int>, q: Seq<int>| is_perm_of(s, orig, p, q);
    assert forall|k: int, a: u64| 0 <= k < vec.len() && rcontains((#[trigger] vec[k]).0, a)
        implies #[trigger] ocovered(orig, orig.len() as int, a, vec[k].1) by {
        assert(ocovered(s, s.len() as int, a, vec[k].1));
        let j = choose|j: int| 0 <= j < s.len() && j < s.len() && (#[trigger] s[j]).0 is Some && s[j].1 == vec[k].1 && rcontains(s[j].0.unwrap(), a);
        let i = q[j];
        assert(s[p[i]] == orig[i]);
        assert(0 <= i < orig.len() && orig[i].0 is Some && orig[i].1 == vec[k].1 && rcontains(orig[i].0.unwrap(), a));
    }
    assert forall|i: int| 0 <= i < orig.len() && oisolated(orig, i) implies okept(vec, #[trigger] orig[i]) by {
        let j = p[i];
        assert(s[j] == orig[i]);
        assert forall|k: int| 0 <= k < s.len() && k != j && (#[trigger] s[k]).0 is Some implies !rintersects(s[k].0.unwrap(), s[j].0.unwrap()) by {
            let i2 = q[k];
            assert(s[p[i2]] == orig[i2]);
            assert(i2 != i);
            assert(!rintersects(orig[i2].0.unwrap(), orig[i].0.unwrap()));
        }
        assert(oisolated(s, j));
        assert(okept(vec, s[j]));
    }
}

pub proof fn lemma_perm_owf<V>(s: Seq<OEntry<V>>, orig: Seq<OEntry<V>>)
    requires perm_of(s, orig), owf(orig),
    ensures owf(s),
{
    let (p, q) = choose|p: Seq<int>, q: Seq<int>| is_perm_of(s, orig, p, q);
    assert forall|i: int| 0 <= i < s.len() && (#[trigger] s[i]).0 is Some implies s[i].0.unwrap().start <= s[i].0.unwrap().end by {
        assert(s[p[q[i]]] == orig[q[i]]);
    }
}
