// Type stubs shared by the minidump-unwind units (C05, C04, C03).
// Only the fields the extracted functions touch are declared; a renamed/retyped field in /repo is a
// compile error in the generated file => the unit is undecided, never a pass.

#[derive(Clone, Copy, PartialEq, Eq)]
pub enum FrameTrust { None, Scan, CfiScan, FramePointer, CallFrameInfo, PreWalked, Context }

pub struct MinidumpContext { pub x: u8 }

pub uninterp spec fn ctx_ip(c: MinidumpContext) -> u64;
pub uninterp spec fn ctx_sp(c: MinidumpContext) -> u64;

impl MinidumpContext {
    #[verifier::external_body]
    pub fn get_instruction_pointer(&self) -> (r: u64)
        ensures r == ctx_ip(*self),
    { unimplemented!() }
    #[verifier::external_body]
    pub fn get_stack_pointer(&self) -> (r: u64)
        ensures r == ctx_sp(*self),
    { unimplemented!() }
}

pub struct StackFrame {
    pub instruction: u64,
    pub resume_address: u64,
    pub trust: FrameTrust,
    pub context: MinidumpContext,
}

// "built by StackFrame::from_context(context, trust)" -- the contract proved for from_context
pub open spec fn fresh_frame(f: StackFrame, t: FrameTrust) -> bool {
    f.instruction == ctx_ip(f.context) && f.resume_address == ctx_ip(f.context) && f.trust == t
}

pub struct GetCallerFrameArgs<P> { pub callee_frame: StackFrame, pub p: P }
