// std Result methods without a vstd specification (documented behaviour, assumed)
pub assume_specification<T, E, F> [core::result::Result::<T, E>::or::<F>] (r: Result<T, E>, other: Result<T, F>) -> (o: Result<T, F>)
    ensures o == (match r { Ok(v) => Ok::<T, F>(v), Err(_) => other });
