// std Option methods without a vstd specification (documented behaviour, assumed)
pub assume_specification<T> [std::option::Option::<T>::or] (a: Option<T>, b: Option<T>) -> (r: Option<T>)
    ensures r == (match a { Some(_) => a, None => b }),;
