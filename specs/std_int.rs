// Assumed specifications of integer methods of core that vstd does not specify.  Included so that
// code (or a change to it) that calls them stays inside the verifier's reach: without a
// specification Verus rejects the call and the unit would be undecided instead of decided.
// Each is the documented meaning of the method.

// truncating (Rust) signed division, expressed with Verus' Euclidean / and %
pub open spec fn tdiv(a: int, b: int) -> int {
    if b == 0 { 0 } else if (a >= 0) == (b > 0) || a % b == 0 { a / b } else if b > 0 { a / b + 1 } else { a / b - 1 }
}
pub open spec fn trem(a: int, b: int) -> int { a - tdiv(a, b) * b }

pub assume_specification [u64::is_power_of_two] (x: u64) -> (r: bool) ensures r == (x != 0 && x & sub(x, 1) == 0);
pub assume_specification [u32::is_power_of_two] (x: u32) -> (r: bool) ensures r == (x != 0 && x & sub(x, 1) == 0);
pub assume_specification [u64::wrapping_div] (a: u64, b: u64) -> (r: u64) requires b != 0, ensures r == a / b;
pub assume_specification [u64::wrapping_rem] (a: u64, b: u64) -> (r: u64) requires b != 0, ensures r == a % b;
pub assume_specification [u32::wrapping_div] (a: u32, b: u32) -> (r: u32) requires b != 0, ensures r == a / b;
pub assume_specification [u32::wrapping_rem] (a: u32, b: u32) -> (r: u32) requires b != 0, ensures r == a % b;
pub assume_specification [i64::wrapping_div] (a: i64, b: i64) -> (r: i64) requires b != 0, ensures r == (if a == i64::MIN && b == -1 { i64::MIN as int } else { tdiv(a as int, b as int) });
pub assume_specification [i64::wrapping_rem] (a: i64, b: i64) -> (r: i64) requires b != 0, ensures r == (if a == i64::MIN && b == -1 { 0 } else { trem(a as int, b as int) });
pub assume_specification [i32::wrapping_div] (a: i32, b: i32) -> (r: i32) requires b != 0, ensures r == (if a == i32::MIN && b == -1 { i32::MIN as int } else { tdiv(a as int, b as int) });
pub assume_specification [u64::abs_diff] (a: u64, b: u64) -> (r: u64) ensures r == (if a >= b { (a - b) as u64 } else { (b - a) as u64 });
pub assume_specification [u32::abs_diff] (a: u32, b: u32) -> (r: u32) ensures r == (if a >= b { (a - b) as u32 } else { (b - a) as u32 });
pub open spec fn npot(x: u64, p: u64, k: u64) -> bool { k < 64 && p == 1u64 << k && p >= x && (k > 0 ==> (1u64 << ((k - 1) as u64)) < x) }
pub assume_specification [u64::checked_next_power_of_two] (x: u64) -> (r: Option<u64>)
    ensures
        match r {
            Some(p) => exists|k: u64| #[trigger] npot(x, p, k),
            None => x > 0x8000_0000_0000_0000u64,
        };
