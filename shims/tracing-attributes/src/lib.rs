//! Verification-only stand-in: `#[instrument(..)]` is the identity.
use proc_macro::TokenStream;

#[proc_macro_attribute]
pub fn instrument(_args: TokenStream, item: TokenStream) -> TokenStream {
    item
}
