//! Verification-only stand-in for `tracing` (DESIGN.md section 2.2).
//!
//! kani-compiler 0.68 crashes on the thread-local dispatcher that the real log macros reach.
//! Under this stand-in the log macros expand to nothing (their arguments are NOT evaluated) and
//! `#[instrument]` is the identity.  It is patched in only inside /verif/kani; /repo is untouched.
//! Listed in every evidence file as an assumption: "log macros not executed under Kani".
pub use tracing_attributes::instrument;

#[macro_export]
macro_rules! trace { ($($t:tt)*) => {{}}; }
#[macro_export]
macro_rules! debug { ($($t:tt)*) => {{}}; }
#[macro_export]
macro_rules! info { ($($t:tt)*) => {{}}; }
#[macro_export]
macro_rules! warn { ($($t:tt)*) => {{}}; }
#[macro_export]
macro_rules! error { ($($t:tt)*) => {{}}; }
