//! C07 (and the STACK WIN part of C03): `win_frame_size`, `walk_with_stack_win_fpo`,
//! `clear_stack_win_caller_registers` on the real breakpad-symbols crate.
//!
//! Spec source: the "STACK WIN frame pointer mode" pseudo-code in the module documentation of
//! walker.rs and the statement of property C07 (leftover-return-address skip; only six output
//! registers; registers not set are unknown in the caller; extreme size fields fail cleanly).

use crate::*;
use breakpad_symbols::verif_hooks as bp;
use breakpad_symbols::verif_hooks::{StackInfoWin, WinStackThing};
use breakpad_symbols::FrameWalker;

pub const EIP: usize = 0;
pub const ESP: usize = 1;
pub const EBP: usize = 2;
pub const EBX: usize = 3;
pub const ESI: usize = 4;
pub const EDI: usize = 5;

pub fn idx(name: &str) -> Option<usize> {
    match name {
        "eip" => Some(EIP),
        "esp" => Some(ESP),
        "ebp" => Some(EBP),
        "ebx" => Some(EBX),
        "esi" => Some(ESI),
        "edi" => Some(EDI),
        _ => None,
    }
}

/// A FrameWalker with the contract of the real x86 `CfiStackWalker`: 32-bit register values,
/// names without `$`, `clear_caller_register` removes by exact name (unknown names are a no-op),
/// `set_caller_register` rejects unknown names and values that do not fit the register.
/// Memory is three mapped words at symbolic addresses: `walk_with_stack_win_fpo` performs at most
/// three reads, so every memory image is represented.
pub struct MockWalker {
    pub instruction: u64,
    pub has_grand_callee: bool,
    pub gcps: u32,
    pub callee: [Option<u32>; 6],
    pub mem: [(u64, Option<u32>); 3],
    pub caller: [Option<u64>; 6],
    /// caller validity; starts as "forwarded from the callee" for every register
    pub caller_valid: [bool; 6],
    /// a name the walker does not know (e.g. one carrying a `$`) reached it
    pub unknown_name_seen: bool,
}

impl MockWalker {
    pub fn new<S: Src>(s: &mut S) -> Self {
        let mut callee = [None; 6];
        for i in 0..6 {
            let valid = s.bool();
            let v = s.u32();
            callee[i] = if valid { Some(v) } else { None };
        }
        let mut mem = [(0u64, None); 3];
        for i in 0..3 {
            let a = s.u64();
            let valid = s.bool();
            let v = s.u32();
            mem[i] = (a, if valid { Some(v) } else { None });
        }
        MockWalker {
            instruction: s.u64(),
            has_grand_callee: s.bool(),
            gcps: s.u32(),
            callee,
            mem,
            caller: [None; 6],
            caller_valid: [true; 6],
            unknown_name_seen: false,
        }
    }
    pub fn read(&self, address: u64) -> Option<u64> {
        for i in 0..3 {
            if self.mem[i].0 == address {
                return self.mem[i].1.map(|v| v as u64);
            }
        }
        None
    }
}

impl FrameWalker for MockWalker {
    fn get_instruction(&self) -> u64 {
        self.instruction
    }
    fn has_grand_callee(&self) -> bool {
        self.has_grand_callee
    }
    fn get_grand_callee_parameter_size(&self) -> u32 {
        self.gcps
    }
    fn get_register_at_address(&self, address: u64) -> Option<u64> {
        self.read(address)
    }
    fn get_callee_register(&self, name: &str) -> Option<u64> {
        match idx(name) {
            Some(i) => self.callee[i].map(|v| v as u64),
            None => None,
        }
    }
    fn set_caller_register(&mut self, name: &str, val: u64) -> Option<()> {
        let i = idx(name)?;
        if val > u32::MAX as u64 {
            return None;
        }
        self.caller[i] = Some(val);
        self.caller_valid[i] = true;
        Some(())
    }
    fn clear_caller_register(&mut self, name: &str) {
        match idx(name) {
            Some(i) => self.caller_valid[i] = false,
            None => self.unknown_name_seen = true,
        }
    }
    fn set_cfa(&mut self, val: u64) -> Option<()> {
        self.set_caller_register("esp", val)
    }
    fn set_ra(&mut self, val: u64) -> Option<()> {
        self.set_caller_register("eip", val)
    }
}

pub fn info<S: Src>(s: &mut S, thing: WinStackThing) -> StackInfoWin {
    StackInfoWin {
        address: s.u64(),
        size: s.u32(),
        prologue_size: s.u32(),
        epilogue_size: s.u32(),
        parameter_size: s.u32(),
        saved_register_size: s.u32(),
        local_size: s.u32(),
        max_stack_size: s.u32(),
        program_string_or_base_pointer: thing,
    }
}

/// win_frame_size: for all u32 fields, no panic, and the result is the documented sum whenever
/// that sum is representable.
pub fn h_win_frame_size<S: Src>(s: &mut S) {
    let i = info(s, WinStackThing::AllocatesBasePointer(false));
    let g = s.u32();
    let exact = i.local_size as u64 + i.saved_register_size as u64 + g as u64;
    let r = bp::win_frame_size(&i, g);
    let want = if exact > u32::MAX as u64 { None } else { Some(exact as u32) };
    vassert!(r == want,
             "win_frame_size == local_size + saved_register_size + grand_callee_parameter_size, or a clean failure when the sum exceeds u32");
    vcover!("win_frame_size reached end");
}

/// The documented FPO result.  None = evaluation fails.
/// Returns (eip, esp, ebp, ebx_set).
pub fn fpo_spec(i: &StackInfoWin, allocates_bp: bool, w: &MockWalker) -> Option<(u64, u64, u64, Option<u64>)> {
    let g = w.gcps as u64;
    let frame_size = i.local_size as u64 + i.saved_register_size as u64 + g;
    if frame_size > u32::MAX as u64 {
        return None; // extreme size fields fail cleanly
    }
    let esp = w.callee[ESP]? as u64;
    let mut eip_address = esp + frame_size;
    let mut eip = w.read(eip_address)?;
    if !w.has_grand_callee {
        let callee_eip = w.callee[EIP]? as u64;
        if eip == callee_eip {
            eip_address += 4;
            eip = w.read(eip_address)?;
        }
    }
    let caller_esp = eip_address + 4;
    let mut ebx = None;
    let ebp = if allocates_bp {
        let a = esp + g + i.saved_register_size as u64;
        if a < 8 {
            return None;
        }
        w.read(a - 8)?
    } else {
        ebx = w.callee[EBX].map(|v| v as u64);
        w.callee[EBP]? as u64
    };
    if caller_esp > u32::MAX as u64 {
        return None;
    }
    Some((eip, caller_esp, ebp, ebx))
}

pub fn h_win_fpo<S: Src>(s: &mut S) {
    let allocates_bp = s.bool();
    let i = info(s, WinStackThing::AllocatesBasePointer(allocates_bp));
    let mut w = MockWalker::new(s);
    let before = MockWalker { ..MockWalker { instruction: w.instruction, has_grand_callee: w.has_grand_callee, gcps: w.gcps, callee: w.callee, mem: w.mem, caller: w.caller, caller_valid: w.caller_valid, unknown_name_seen: false } };
    let expect = fpo_spec(&i, allocates_bp, &before);
    let r = breakpad_symbols::walker::walk_with_stack_win_fpo(&i, &mut w);
    vassert!(r.is_some() == expect.is_some(), "FPO: succeeds exactly when the documented evaluation is defined");
    if let (Some(()), Some((eip, esp, ebp, ebx))) = (r, expect) {
        vassert!(w.caller[EIP] == Some(eip), "FPO: $eip := *($esp + frame_size) with leftover-return-address skip");
        vassert!(w.caller[ESP] == Some(esp), "FPO: $esp := address of return address + 4");
        vassert!(w.caller[EBP] == Some(ebp), "FPO: $ebp from saved slot when allocates_base_pointer else passed through");
        vassert!(w.caller[EBX] == ebx, "FPO: $ebx passed through only without allocates_base_pointer");
        vassert!(w.caller[ESI].is_none() && w.caller[EDI].is_none(), "FPO: $esi/$edi are not set");
        vassert!(!w.caller_valid[ESI] && !w.caller_valid[EDI], "STACK WIN: registers the record did not set are unknown in the caller");
        vassert!(w.caller_valid[EBX] == ebx.is_some(), "FPO: $ebx known in the caller only via documented pass-through");
        vcover!("FPO success path reached");
    }
    vassert!(!w.unknown_name_seen, "FrameWalker precondition: register names reach the walker without a dollar prefix");
    vcover!("FPO reached end");
}

/// C03 view of the same function: totality only (no panic for any input), no semantic claim.
pub fn h_win_fpo_total<S: Src>(s: &mut S) {
    let allocates_bp = s.bool();
    let i = info(s, WinStackThing::AllocatesBasePointer(allocates_bp));
    let mut w = MockWalker::new(s);
    let _ = breakpad_symbols::walker::walk_with_stack_win_fpo(&i, &mut w);
    vcover!("FPO totality reached end");
}

pub fn h_win_clear<S: Src>(s: &mut S) {
    let mut w = MockWalker::new(s);
    bp::clear_stack_win_caller_registers(&mut w);
    vassert!(!w.unknown_name_seen, "FrameWalker precondition: register names reach the walker without a dollar prefix");
    let mut k = 0;
    while k < 6 {
        vassert!(!w.caller_valid[k], "clear_stack_win_caller_registers: every output register is unknown in the caller afterwards");
        k += 1;
    }
    vcover!("clear reached end");
}

harness!(reg, k_win_frame_size, h_win_frame_size, unwind = 8);
harness!(reg, k_win_fpo, h_win_fpo, unwind = 8);
harness!(reg, k_win_clear, h_win_clear, unwind = 8);
harness!(reg, k_win_fpo_total, h_win_fpo_total, unwind = 8);

pub fn register(v: &mut Vec<(&'static str, fn(&mut TapeSrc))>) {
    v.push(("k_win_frame_size", h_win_frame_size::<TapeSrc>));
    v.push(("k_win_fpo", h_win_fpo::<TapeSrc>));
    v.push(("k_win_clear", h_win_clear::<TapeSrc>));
    v.push(("k_win_fpo_total", h_win_fpo_total::<TapeSrc>));
}
