//! Input sources and the assertion vocabulary shared by all harnesses.

pub trait Src {
    fn u8(&mut self) -> u8;
    fn bool(&mut self) -> bool;
    fn u16(&mut self) -> u16;
    fn u32(&mut self) -> u32;
    fn u64(&mut self) -> u64;
    fn bytes<const N: usize>(&mut self) -> [u8; N] {
        let mut a = [0u8; N];
        let mut i = 0;
        while i < N {
            a[i] = self.u8();
            i += 1;
        }
        a
    }
}

#[cfg(kani)]
pub struct KaniSrc;

#[cfg(kani)]
impl Src for KaniSrc {
    fn u8(&mut self) -> u8 {
        kani::any()
    }
    fn bool(&mut self) -> bool {
        kani::any()
    }
    fn u16(&mut self) -> u16 {
        kani::any()
    }
    fn u32(&mut self) -> u32 {
        kani::any()
    }
    fn u64(&mut self) -> u64 {
        kani::any()
    }
    fn bytes<const N: usize>(&mut self) -> [u8; N] {
        kani::any()
    }
}

/// Native source: bytes in the order Kani's concrete playback lists them (little endian per draw).
pub struct TapeSrc {
    pub tape: Vec<u8>,
    pub pos: usize,
    pub underrun: bool,
}

impl TapeSrc {
    pub fn new(tape: Vec<u8>) -> Self {
        TapeSrc { tape, pos: 0, underrun: false }
    }
    fn take(&mut self, n: usize) -> u64 {
        let mut v: u64 = 0;
        for i in 0..n {
            let b = if self.pos < self.tape.len() {
                self.tape[self.pos]
            } else {
                self.underrun = true;
                0
            };
            self.pos += 1;
            v |= (b as u64) << (8 * i);
        }
        v
    }
}

impl Src for TapeSrc {
    fn u8(&mut self) -> u8 {
        self.take(1) as u8
    }
    fn bool(&mut self) -> bool {
        self.take(1) != 0
    }
    fn u16(&mut self) -> u16 {
        self.take(2) as u16
    }
    fn u32(&mut self) -> u32 {
        self.take(4) as u32
    }
    fn u64(&mut self) -> u64 {
        self.take(8)
    }
}

/// Precondition of a harness.  Kani: `kani::assume`.  Native: a tape violating it is rejected
/// with a distinctive panic message (it is not a counterexample).
#[macro_export]
macro_rules! vassume {
    ($c:expr) => {{
        #[cfg(kani)]
        kani::assume($c);
        #[cfg(not(kani))]
        if !($c) {
            panic!("VASSUME-REJECTED: tape does not satisfy harness precondition `{}`", stringify!($c));
        }
    }};
}

/// A named obligation.
#[macro_export]
macro_rules! vassert {
    ($c:expr, $name:expr) => {{
        #[cfg(kani)]
        kani::assert($c, $name);
        #[cfg(not(kani))]
        if !($c) {
            panic!("OBLIGATION-FAILED: {}", $name);
        }
    }};
}

/// Reachability witness behind the preconditions (vacuity guard): must be SATISFIED.
#[macro_export]
macro_rules! vcover {
    ($name:expr) => {{
        #[cfg(kani)]
        kani::cover!(true, $name);
    }};
    ($c:expr, $name:expr) => {{
        #[cfg(kani)]
        kani::cover!($c, $name);
    }};
}

/// Declares the Kani proof entry and the native registry entry for one harness body.
#[macro_export]
macro_rules! harness {
    ($reg:ident, $kname:ident, $body:ident, unwind = $n:expr) => {
        #[cfg(kani)]
        #[kani::proof]
        #[kani::unwind($n)]
        fn $kname() {
            $body(&mut $crate::KaniSrc);
        }
    };
}
