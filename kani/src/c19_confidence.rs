//! C19: every bit-flip confidence lies in [0, 1] (and is not NaN), for all flag combinations and all
//! `nearby_registers: u32`.  CBMC's floating point is bit-precise; loop over at most 4 values.
use crate::*;
use minidump_processor::BitFlipDetails;

pub fn h_confidence<S: Src>(s: &mut S) {
    let d = BitFlipDetails {
        was_non_canonical: s.bool(),
        is_null: s.bool(),
        was_low: s.bool(),
        nearby_registers: s.u32(),
        poison_registers: s.bool(),
    };
    let c = d.confidence();
    vassert!(!c.is_nan(), "confidence is a number");
    vassert!(c >= 0.0 && c <= 1.0, "confidence lies between 0 and 1");
    vcover!(d.nearby_registers > 4, "nearby_registers above table length reached");
    vcover!("confidence reached end");
}

harness!(reg, k_bitflip_confidence, h_confidence, unwind = 8);

pub fn register(v: &mut Vec<(&'static str, fn(&mut TapeSrc))>) {
    v.push(("k_bitflip_confidence", h_confidence::<TapeSrc>));
}
