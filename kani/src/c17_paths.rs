//! C17: relative lookup paths derived from module names (bounded in string length).
use crate::*;
use breakpad_symbols::verif_hooks as bp;

pub const N: usize = 4;

pub fn sym_str<S: Src>(s: &mut S, buf: &mut [u8; N]) -> usize {
    sym_str_n::<S, N>(s, buf)
}

pub fn sym_str_n<S: Src, const K: usize>(s: &mut S, buf: &mut [u8; K]) -> usize {
    let len = s.u8() as usize;
    let b: [u8; K] = s.bytes::<K>();
    *buf = b;
    len
}

fn is_sep(b: u8) -> bool {
    b == b'/' || b == b'\\'
}

/// leafname: the result has no separator, is a suffix of the input, and is preceded by a
/// separator or is the whole input.
pub fn h_leafname<S: Src>(s: &mut S) {
    h_leafname_n::<S, N>(s)
}

/// thorough tier: the same obligations for paths of at most 7 bytes
pub fn h_leafname7<S: Src>(s: &mut S) {
    h_leafname_n::<S, 7>(s)
}

pub fn h_leafname_n<S: Src, const K: usize>(s: &mut S) {
    let mut buf = [0u8; K];
    let len = sym_str_n::<S, K>(s, &mut buf);
    vassume!(len <= K);
    let mut k = 0;
    while k < K {
        vassume!(buf[k] < 128);
        k += 1;
    }
    let path = core::str::from_utf8(&buf[..len]).unwrap();
    let leaf = bp::leafname(path);
    let lb = leaf.as_bytes();
    vassert!(lb.len() <= len, "leafname: result is no longer than the input");
    let off = len - lb.len();
    let mut k = 0;
    while k < lb.len() {
        vassert!(!is_sep(lb[k]), "leafname: result contains no path separator");
        vassert!(lb[k] == buf[off + k], "leafname: result is a suffix of the input");
        k += 1;
    }
    vassert!(off == 0 || is_sep(buf[off - 1]), "leafname: result starts right after the last separator (or is the whole input)");
    vcover!(off > 0 && lb.len() > 0, "leafname non-trivial split reached");
    vcover!("leafname reached end");
}

/// safe_leafname (the gate every lookup function passes module names through): whatever it lets
/// through is a non-empty suffix of the input without separators, is not `..`, has no drive prefix,
/// and used as the first component of a relative path satisfies the predicate of C17.
pub fn h_safe_leafname<S: Src>(s: &mut S) {
    let mut buf = [0u8; N];
    let len = sym_str(s, &mut buf);
    vassume!(len <= N);
    let mut k = 0;
    while k < N {
        vassume!(buf[k] < 128);
        k += 1;
    }
    let path = core::str::from_utf8(&buf[..len]).unwrap();
    if let Some(leaf) = bp::safe_leafname(path) {
        let lb = leaf.as_bytes();
        vassert!(!lb.is_empty(), "safe_leafname: result is not empty");
        vassert!(lb.len() <= len, "safe_leafname: result is no longer than the input");
        let off = len - lb.len();
        let mut k = 0;
        while k < lb.len() {
            vassert!(!is_sep(lb[k]), "safe_leafname: result contains no path separator");
            vassert!(lb[k] == buf[off + k], "safe_leafname: result is a suffix of the input");
            k += 1;
        }
        vassert!(!(lb.len() == 2 && lb[0] == b'.' && lb[1] == b'.'), "safe_leafname: result is not `..`");
        vassert!(!(lb.len() >= 2 && lb[1] == b':'), "safe_leafname: result has no drive prefix");
        // as first component of `<leaf>/x`
        let mut p = [0u8; N + 2];
        let mut k = 0;
        while k < lb.len() {
            p[k] = lb[k];
            k += 1;
        }
        p[lb.len()] = b'/';
        p[lb.len() + 1] = b'x';
        vassert!(rel_path_ok(&p[..lb.len() + 2]), "a path starting with a safe leaf is relative and has no `..` component");
        vcover!("safe leaf accepted");
    } else {
        vcover!("safe leaf rejected");
    }
    vcover!("safe_leafname reached end");
}

/// The predicate of property C17 on a relative lookup path: genuinely relative (no leading
/// separator, no drive prefix, non-empty first component) and no `..` component.
pub fn rel_path_ok(p: &[u8]) -> bool {
    if p.is_empty() || is_sep(p[0]) {
        return false;
    }
    if p.len() >= 2 && p[1] == b':' {
        return false;
    }
    // no component equal to ".."
    let mut start = 0;
    let mut i = 0;
    while i <= p.len() {
        if i == p.len() || is_sep(p[i]) {
            if i - start == 2 && p[start] == b'.' && p[start + 1] == b'.' {
                return false;
            }
            start = i + 1;
        }
        i += 1;
    }
    true
}

pub struct MockModule {
    pub code_file: String,
    pub debug_file: Option<String>,
}
impl breakpad_symbols::Module for MockModule {
    fn base_address(&self) -> u64 { 0 }
    fn size(&self) -> u64 { 0 }
    fn code_file(&self) -> std::borrow::Cow<'_, str> { std::borrow::Cow::Borrowed(&self.code_file) }
    fn code_identifier(&self) -> Option<debugid::CodeId> { None }
    fn debug_file(&self) -> Option<std::borrow::Cow<'_, str>> { self.debug_file.as_ref().map(|s| std::borrow::Cow::Borrowed(&s[..])) }
    fn debug_identifier(&self) -> Option<debugid::DebugId> { Some(debugid::DebugId::nil()) }
    fn version(&self) -> Option<std::borrow::Cow<'_, str>> { None }
}

pub const M: usize = 3;

/// breakpad_sym_lookup / extra_debuginfo_lookup with a symbolic debug file name (<= 3 ASCII bytes)
/// and a fixed debug id: every produced relative path satisfies the predicate of C17.
pub fn h_sym_lookup<S: Src>(s: &mut S) {
    let len = s.u8() as usize;
    let b: [u8; M] = s.bytes::<M>();
    vassume!(len <= M);
    vassume!(b[0] < 128 && b[1] < 128 && b[2] < 128);
    let name = core::str::from_utf8(&b[..len]).unwrap();
    let m = MockModule { code_file: String::new(), debug_file: Some(String::from(name)) };
    if let Some(l) = breakpad_symbols::breakpad_sym_lookup(&m) {
        vassert!(rel_path_ok(l.cache_rel.as_bytes()), "breakpad_sym_lookup: cache path is relative and has no `..` component");
        vassert!(rel_path_ok(l.server_rel.as_bytes()), "breakpad_sym_lookup: server path is relative and has no `..` component");
        vcover!("sym lookup produced a path");
    }
    vcover!("sym lookup reached end");
}

harness!(reg, k_leafname, h_leafname, unwind = 8);
harness!(reg, k_safe_leafname, h_safe_leafname, unwind = 8);
harness!(reg, k_leafname7, h_leafname7, unwind = 12);
// k_sym_lookup is not a Kani harness (String formatting is intractable for CBMC: >8 min, no result); the body is kept for native demonstration via the replay binary

pub fn register(v: &mut Vec<(&'static str, fn(&mut TapeSrc))>) {
    v.push(("k_leafname", h_leafname::<TapeSrc>));
    v.push(("k_safe_leafname", h_safe_leafname::<TapeSrc>));
    v.push(("k_leafname7", h_leafname7::<TapeSrc>));
    v.push(("k_sym_lookup", h_sym_lookup::<TapeSrc>));
}
