//! C02 (decoder side): `pread_with::<S>(bytes, 0, endian)` of the derive(Pread) structs equals the
//! documented layout, for fully symbolic bytes and symbolic endianness.  The offset tables below are
//! written from the Microsoft / Breakpad documentation of the structures (minidumpapiset.h), not
//! from format.rs.  Loop-free => complete over all 2^(8*size) inputs.
use crate::*;
use minidump::format as md;
use scroll::{Pread, LE, BE};
use scroll::ctx::SizeWith;

fn rd16(b: &[u8], off: usize, le: bool) -> u16 {
    if le { u16::from_le_bytes([b[off], b[off + 1]]) } else { u16::from_be_bytes([b[off], b[off + 1]]) }
}
fn rd32(b: &[u8], off: usize, le: bool) -> u32 {
    if le { u32::from_le_bytes([b[off], b[off + 1], b[off + 2], b[off + 3]]) } else { u32::from_be_bytes([b[off], b[off + 1], b[off + 2], b[off + 3]]) }
}
fn rd64(b: &[u8], off: usize, le: bool) -> u64 {
    let a = [b[off], b[off + 1], b[off + 2], b[off + 3], b[off + 4], b[off + 5], b[off + 6], b[off + 7]];
    if le { u64::from_le_bytes(a) } else { u64::from_be_bytes(a) }
}

macro_rules! layout_harness {
    ($k:ident, $h:ident, $ty:ty, $size:expr, |$v:ident, $b:ident, $le:ident| $checks:block) => {
        pub fn $h<S: Src>(s: &mut S) {
            let $b: [u8; $size] = s.bytes::<$size>();
            let $le = s.bool();
            let endian = if $le { LE } else { BE };
            vassert!(<$ty>::size_with(&endian) == $size, concat!(stringify!($ty), ": size_with equals the documented size"));
            let r: Result<$ty, scroll::Error> = $b.pread_with(0, endian);
            vassert!(r.is_ok(), concat!(stringify!($ty), ": a buffer of the documented size always decodes"));
            let $v = r.unwrap();
            $checks
            vcover!("layout reached end");
        }
        harness!(reg, $k, $h, unwind = 34);
    };
}

layout_harness!(k_layout_header, h_layout_header, md::MINIDUMP_HEADER, 32, |v, b, le| {
    vassert!((v.signature as u32) == rd32(&b, 0, le), "MINIDUMP_HEADER.Signature at 0");
    vassert!((v.version as u32) == rd32(&b, 4, le), "MINIDUMP_HEADER.Version at 4");
    vassert!((v.stream_count as u32) == rd32(&b, 8, le), "MINIDUMP_HEADER.NumberOfStreams at 8");
    vassert!((v.stream_directory_rva as u32) == rd32(&b, 12, le), "MINIDUMP_HEADER.StreamDirectoryRva at 12");
    vassert!((v.checksum as u32) == rd32(&b, 16, le), "MINIDUMP_HEADER.CheckSum at 16");
    vassert!((v.time_date_stamp as u32) == rd32(&b, 20, le), "MINIDUMP_HEADER.TimeDateStamp at 20");
    vassert!((v.flags as u64) == rd64(&b, 24, le), "MINIDUMP_HEADER.Flags at 24");
});

layout_harness!(k_layout_directory, h_layout_directory, md::MINIDUMP_DIRECTORY, 12, |v, b, le| {
    vassert!((v.stream_type as u32) == rd32(&b, 0, le), "MINIDUMP_DIRECTORY.StreamType at 0");
    vassert!((v.location.data_size as u32) == rd32(&b, 4, le), "MINIDUMP_DIRECTORY.Location.DataSize at 4");
    vassert!((v.location.rva as u32) == rd32(&b, 8, le), "MINIDUMP_DIRECTORY.Location.Rva at 8");
});

layout_harness!(k_layout_memdesc, h_layout_memdesc, md::MINIDUMP_MEMORY_DESCRIPTOR, 16, |v, b, le| {
    vassert!((v.start_of_memory_range as u64) == rd64(&b, 0, le), "MINIDUMP_MEMORY_DESCRIPTOR.StartOfMemoryRange at 0");
    vassert!((v.memory.data_size as u32) == rd32(&b, 8, le), "MINIDUMP_MEMORY_DESCRIPTOR.Memory.DataSize at 8");
    vassert!((v.memory.rva as u32) == rd32(&b, 12, le), "MINIDUMP_MEMORY_DESCRIPTOR.Memory.Rva at 12");
});

layout_harness!(k_layout_memdesc64, h_layout_memdesc64, md::MINIDUMP_MEMORY_DESCRIPTOR64, 16, |v, b, le| {
    vassert!((v.start_of_memory_range as u64) == rd64(&b, 0, le), "MINIDUMP_MEMORY_DESCRIPTOR64.StartOfMemoryRange at 0");
    vassert!((v.data_size as u64) == rd64(&b, 8, le), "MINIDUMP_MEMORY_DESCRIPTOR64.DataSize at 8");
});

layout_harness!(k_layout_thread, h_layout_thread, md::MINIDUMP_THREAD, 48, |v, b, le| {
    vassert!((v.thread_id as u32) == rd32(&b, 0, le), "MINIDUMP_THREAD.ThreadId at 0");
    vassert!((v.suspend_count as u32) == rd32(&b, 4, le), "MINIDUMP_THREAD.SuspendCount at 4");
    vassert!((v.priority_class as u32) == rd32(&b, 8, le), "MINIDUMP_THREAD.PriorityClass at 8");
    vassert!((v.priority as u32) == rd32(&b, 12, le), "MINIDUMP_THREAD.Priority at 12");
    vassert!((v.teb as u64) == rd64(&b, 16, le), "MINIDUMP_THREAD.Teb at 16");
    vassert!((v.stack.start_of_memory_range as u64) == rd64(&b, 24, le), "MINIDUMP_THREAD.Stack.StartOfMemoryRange at 24");
    vassert!((v.stack.memory.data_size as u32) == rd32(&b, 32, le), "MINIDUMP_THREAD.Stack.Memory.DataSize at 32");
    vassert!((v.stack.memory.rva as u32) == rd32(&b, 36, le), "MINIDUMP_THREAD.Stack.Memory.Rva at 36");
    vassert!((v.thread_context.data_size as u32) == rd32(&b, 40, le), "MINIDUMP_THREAD.ThreadContext.DataSize at 40");
    vassert!((v.thread_context.rva as u32) == rd32(&b, 44, le), "MINIDUMP_THREAD.ThreadContext.Rva at 44");
});

layout_harness!(k_layout_thread_name, h_layout_thread_name, md::MINIDUMP_THREAD_NAME, 12, |v, b, le| {
    vassert!((v.thread_id as u32) == rd32(&b, 0, le), "MINIDUMP_THREAD_NAME.ThreadId at 0");
    vassert!((v.thread_name_rva as u64) == rd64(&b, 4, le), "MINIDUMP_THREAD_NAME.RvaOfThreadName at 4 (packed)");
});

layout_harness!(k_layout_memory_info, h_layout_memory_info, md::MINIDUMP_MEMORY_INFO, 48, |v, b, le| {
    vassert!((v.base_address as u64) == rd64(&b, 0, le), "MINIDUMP_MEMORY_INFO.BaseAddress at 0");
    vassert!((v.allocation_base as u64) == rd64(&b, 8, le), "MINIDUMP_MEMORY_INFO.AllocationBase at 8");
    vassert!((v.allocation_protection as u32) == rd32(&b, 16, le), "MINIDUMP_MEMORY_INFO.AllocationProtect at 16");
    vassert!((v.region_size as u64) == rd64(&b, 24, le), "MINIDUMP_MEMORY_INFO.RegionSize at 24");
    vassert!((v.state as u32) == rd32(&b, 32, le), "MINIDUMP_MEMORY_INFO.State at 32");
    vassert!((v.protection as u32) == rd32(&b, 36, le), "MINIDUMP_MEMORY_INFO.Protect at 36");
    vassert!((v._type as u32) == rd32(&b, 40, le), "MINIDUMP_MEMORY_INFO.Type at 40");
});

layout_harness!(k_layout_unloaded_module, h_layout_unloaded_module, md::MINIDUMP_UNLOADED_MODULE, 24, |v, b, le| {
    vassert!((v.base_of_image as u64) == rd64(&b, 0, le), "MINIDUMP_UNLOADED_MODULE.BaseOfImage at 0");
    vassert!((v.size_of_image as u32) == rd32(&b, 8, le), "MINIDUMP_UNLOADED_MODULE.SizeOfImage at 8");
    vassert!((v.checksum as u32) == rd32(&b, 12, le), "MINIDUMP_UNLOADED_MODULE.CheckSum at 12");
    vassert!((v.time_date_stamp as u32) == rd32(&b, 16, le), "MINIDUMP_UNLOADED_MODULE.TimeDateStamp at 16");
    vassert!((v.module_name_rva as u32) == rd32(&b, 20, le), "MINIDUMP_UNLOADED_MODULE.ModuleNameRva at 20");
});

layout_harness!(k_layout_module, h_layout_module, md::MINIDUMP_MODULE, 108, |v, b, le| {
    vassert!((v.base_of_image as u64) == rd64(&b, 0, le), "MINIDUMP_MODULE.BaseOfImage at 0");
    vassert!((v.size_of_image as u32) == rd32(&b, 8, le), "MINIDUMP_MODULE.SizeOfImage at 8");
    vassert!((v.checksum as u32) == rd32(&b, 12, le), "MINIDUMP_MODULE.CheckSum at 12");
    vassert!((v.time_date_stamp as u32) == rd32(&b, 16, le), "MINIDUMP_MODULE.TimeDateStamp at 16");
    vassert!((v.module_name_rva as u32) == rd32(&b, 20, le), "MINIDUMP_MODULE.ModuleNameRva at 20");
    vassert!((v.version_info.signature as u32) == rd32(&b, 24, le), "MINIDUMP_MODULE.VersionInfo.dwSignature at 24");
    vassert!((v.version_info.file_version_hi as u32) == rd32(&b, 32, le), "MINIDUMP_MODULE.VersionInfo.dwFileVersionMS at 32");
    vassert!((v.version_info.file_version_lo as u32) == rd32(&b, 36, le), "MINIDUMP_MODULE.VersionInfo.dwFileVersionLS at 36");
    vassert!((v.cv_record.data_size as u32) == rd32(&b, 76, le), "MINIDUMP_MODULE.CvRecord.DataSize at 76");
    vassert!((v.cv_record.rva as u32) == rd32(&b, 80, le), "MINIDUMP_MODULE.CvRecord.Rva at 80");
    vassert!((v.misc_record.data_size as u32) == rd32(&b, 84, le), "MINIDUMP_MODULE.MiscRecord.DataSize at 84");
    vassert!((v.misc_record.rva as u32) == rd32(&b, 88, le), "MINIDUMP_MODULE.MiscRecord.Rva at 88");
});

layout_harness!(k_layout_exception_stream, h_layout_exception_stream, md::MINIDUMP_EXCEPTION_STREAM, 168, |v, b, le| {
    vassert!((v.thread_id as u32) == rd32(&b, 0, le), "MINIDUMP_EXCEPTION_STREAM.ThreadId at 0");
    vassert!((v.exception_record.exception_code as u32) == rd32(&b, 8, le), "MINIDUMP_EXCEPTION.ExceptionCode at 8");
    vassert!((v.exception_record.exception_flags as u32) == rd32(&b, 12, le), "MINIDUMP_EXCEPTION.ExceptionFlags at 12");
    vassert!((v.exception_record.exception_record as u64) == rd64(&b, 16, le), "MINIDUMP_EXCEPTION.ExceptionRecord at 16");
    vassert!((v.exception_record.exception_address as u64) == rd64(&b, 24, le), "MINIDUMP_EXCEPTION.ExceptionAddress at 24");
    vassert!((v.exception_record.number_parameters as u32) == rd32(&b, 32, le), "MINIDUMP_EXCEPTION.NumberParameters at 32");
    vassert!(v.exception_record.exception_information[0] == rd64(&b, 40, le), "MINIDUMP_EXCEPTION.ExceptionInformation[0] at 40");
    vassert!(v.exception_record.exception_information[1] == rd64(&b, 48, le), "MINIDUMP_EXCEPTION.ExceptionInformation[1] at 48");
    vassert!(v.exception_record.exception_information[14] == rd64(&b, 152, le), "MINIDUMP_EXCEPTION.ExceptionInformation[14] at 152");
    vassert!((v.thread_context.data_size as u32) == rd32(&b, 160, le), "MINIDUMP_EXCEPTION_STREAM.ThreadContext.DataSize at 160");
    vassert!((v.thread_context.rva as u32) == rd32(&b, 164, le), "MINIDUMP_EXCEPTION_STREAM.ThreadContext.Rva at 164");
});

layout_harness!(k_layout_handle_desc, h_layout_handle_desc, md::MINIDUMP_HANDLE_DESCRIPTOR, 32, |v, b, le| {
    vassert!((v.handle as u64) == rd64(&b, 0, le), "MINIDUMP_HANDLE_DESCRIPTOR.Handle at 0");
    vassert!((v.type_name_rva as u32) == rd32(&b, 8, le), "MINIDUMP_HANDLE_DESCRIPTOR.TypeNameRva at 8");
    vassert!((v.object_name_rva as u32) == rd32(&b, 12, le), "MINIDUMP_HANDLE_DESCRIPTOR.ObjectNameRva at 12");
    vassert!((v.attributes as u32) == rd32(&b, 16, le), "MINIDUMP_HANDLE_DESCRIPTOR.Attributes at 16");
    vassert!((v.granted_access as u32) == rd32(&b, 20, le), "MINIDUMP_HANDLE_DESCRIPTOR.GrantedAccess at 20");
    vassert!((v.handle_count as u32) == rd32(&b, 24, le), "MINIDUMP_HANDLE_DESCRIPTOR.HandleCount at 24");
    vassert!((v.pointer_count as u32) == rd32(&b, 28, le), "MINIDUMP_HANDLE_DESCRIPTOR.PointerCount at 28");
});

layout_harness!(k_layout_handle_desc2, h_layout_handle_desc2, md::MINIDUMP_HANDLE_DESCRIPTOR_2, 40, |v, b, le| {
    vassert!((v.handle as u64) == rd64(&b, 0, le), "MINIDUMP_HANDLE_DESCRIPTOR_2.Handle at 0");
    vassert!((v.type_name_rva as u32) == rd32(&b, 8, le), "MINIDUMP_HANDLE_DESCRIPTOR_2.TypeNameRva at 8");
    vassert!((v.object_name_rva as u32) == rd32(&b, 12, le), "MINIDUMP_HANDLE_DESCRIPTOR_2.ObjectNameRva at 12");
    vassert!((v.attributes as u32) == rd32(&b, 16, le), "MINIDUMP_HANDLE_DESCRIPTOR_2.Attributes at 16");
    vassert!((v.granted_access as u32) == rd32(&b, 20, le), "MINIDUMP_HANDLE_DESCRIPTOR_2.GrantedAccess at 20");
    vassert!((v.handle_count as u32) == rd32(&b, 24, le), "MINIDUMP_HANDLE_DESCRIPTOR_2.HandleCount at 24");
    vassert!((v.pointer_count as u32) == rd32(&b, 28, le), "MINIDUMP_HANDLE_DESCRIPTOR_2.PointerCount at 28");
    vassert!((v.object_info_rva as u32) == rd32(&b, 32, le), "MINIDUMP_HANDLE_DESCRIPTOR_2.ObjectInfoRva at 32");
});

layout_harness!(k_layout_system_info, h_layout_system_info, md::MINIDUMP_SYSTEM_INFO, 56, |v, b, le| {
    vassert!((v.processor_architecture as u16) == rd16(&b, 0, le), "MINIDUMP_SYSTEM_INFO.ProcessorArchitecture at 0");
    vassert!((v.processor_level as u16) == rd16(&b, 2, le), "MINIDUMP_SYSTEM_INFO.ProcessorLevel at 2");
    vassert!((v.processor_revision as u16) == rd16(&b, 4, le), "MINIDUMP_SYSTEM_INFO.ProcessorRevision at 4");
    vassert!(v.number_of_processors == b[6], "MINIDUMP_SYSTEM_INFO.NumberOfProcessors at 6");
    vassert!(v.product_type == b[7], "MINIDUMP_SYSTEM_INFO.ProductType at 7");
    vassert!((v.major_version as u32) == rd32(&b, 8, le), "MINIDUMP_SYSTEM_INFO.MajorVersion at 8");
    vassert!((v.minor_version as u32) == rd32(&b, 12, le), "MINIDUMP_SYSTEM_INFO.MinorVersion at 12");
    vassert!((v.build_number as u32) == rd32(&b, 16, le), "MINIDUMP_SYSTEM_INFO.BuildNumber at 16");
    vassert!((v.platform_id as u32) == rd32(&b, 20, le), "MINIDUMP_SYSTEM_INFO.PlatformId at 20");
    vassert!((v.csd_version_rva as u32) == rd32(&b, 24, le), "MINIDUMP_SYSTEM_INFO.CSDVersionRva at 24");
    vassert!((v.suite_mask as u16) == rd16(&b, 28, le), "MINIDUMP_SYSTEM_INFO.SuiteMask at 28");
});

layout_harness!(k_layout_breakpad_info, h_layout_breakpad_info, md::MINIDUMP_BREAKPAD_INFO, 12, |v, b, le| {
    vassert!((v.validity as u32) == rd32(&b, 0, le), "MINIDUMP_BREAKPAD_INFO.validity at 0");
    vassert!((v.dump_thread_id as u32) == rd32(&b, 4, le), "MINIDUMP_BREAKPAD_INFO.dump_thread_id at 4");
    vassert!((v.requesting_thread_id as u32) == rd32(&b, 8, le), "MINIDUMP_BREAKPAD_INFO.requesting_thread_id at 8");
});

layout_harness!(k_layout_misc_info, h_layout_misc_info, md::MINIDUMP_MISC_INFO, 24, |v, b, le| {
    vassert!((v.size_of_info as u32) == rd32(&b, 0, le), "MINIDUMP_MISC_INFO.SizeOfInfo at 0");
    vassert!((v.flags1 as u32) == rd32(&b, 4, le), "MINIDUMP_MISC_INFO.Flags1 at 4");
    vassert!((v.process_id as u32) == rd32(&b, 8, le), "MINIDUMP_MISC_INFO.ProcessId at 8");
    vassert!((v.process_create_time as u32) == rd32(&b, 12, le), "MINIDUMP_MISC_INFO.ProcessCreateTime at 12");
    vassert!((v.process_user_time as u32) == rd32(&b, 16, le), "MINIDUMP_MISC_INFO.ProcessUserTime at 16");
    vassert!((v.process_kernel_time as u32) == rd32(&b, 20, le), "MINIDUMP_MISC_INFO.ProcessKernelTime at 20");
});

layout_harness!(k_layout_location, h_layout_location, md::MINIDUMP_LOCATION_DESCRIPTOR, 8, |v, b, le| {
    vassert!((v.data_size as u32) == rd32(&b, 0, le), "MINIDUMP_LOCATION_DESCRIPTOR.DataSize at 0");
    vassert!((v.rva as u32) == rd32(&b, 4, le), "MINIDUMP_LOCATION_DESCRIPTOR.Rva at 4");
});

// Crashpad extension structures (crashpad/minidump/minidump_extensions.h)
layout_harness!(k_layout_cp_dict_entry, h_layout_cp_dict_entry, md::MINIDUMP_SIMPLE_STRING_DICTIONARY_ENTRY, 8, |v, b, le| {
    vassert!((v.key as u32) == rd32(&b, 0, le), "MinidumpSimpleStringDictionaryEntry.key at 0");
    vassert!((v.value as u32) == rd32(&b, 4, le), "MinidumpSimpleStringDictionaryEntry.value at 4");
});

layout_harness!(k_layout_cp_annotation, h_layout_cp_annotation, md::MINIDUMP_ANNOTATION, 12, |v, b, le| {
    vassert!((v.name as u32) == rd32(&b, 0, le), "MinidumpAnnotation.name at 0");
    vassert!((v.ty as u16) == rd16(&b, 4, le), "MinidumpAnnotation.type at 4");
    vassert!((v._reserved as u16) == rd16(&b, 6, le), "MinidumpAnnotation.reserved at 6");
    vassert!((v.value as u32) == rd32(&b, 8, le), "MinidumpAnnotation.value at 8");
});

layout_harness!(k_layout_cp_module_info, h_layout_cp_module_info, md::MINIDUMP_MODULE_CRASHPAD_INFO, 28, |v, b, le| {
    vassert!((v.version as u32) == rd32(&b, 0, le), "MinidumpModuleCrashpadInfo.version at 0");
    vassert!((v.list_annotations.data_size as u32) == rd32(&b, 4, le), "MinidumpModuleCrashpadInfo.list_annotations.DataSize at 4");
    vassert!((v.list_annotations.rva as u32) == rd32(&b, 8, le), "MinidumpModuleCrashpadInfo.list_annotations.Rva at 8");
    vassert!((v.simple_annotations.data_size as u32) == rd32(&b, 12, le), "MinidumpModuleCrashpadInfo.simple_annotations.DataSize at 12");
    vassert!((v.simple_annotations.rva as u32) == rd32(&b, 16, le), "MinidumpModuleCrashpadInfo.simple_annotations.Rva at 16");
    vassert!((v.annotation_objects.data_size as u32) == rd32(&b, 20, le), "MinidumpModuleCrashpadInfo.annotation_objects.DataSize at 20");
    vassert!((v.annotation_objects.rva as u32) == rd32(&b, 24, le), "MinidumpModuleCrashpadInfo.annotation_objects.Rva at 24");
});

layout_harness!(k_layout_cp_module_link, h_layout_cp_module_link, md::MINIDUMP_MODULE_CRASHPAD_INFO_LINK, 12, |v, b, le| {
    vassert!((v.minidump_module_list_index as u32) == rd32(&b, 0, le), "MinidumpModuleCrashpadInfoLink.minidump_module_list_index at 0");
    vassert!((v.location.data_size as u32) == rd32(&b, 4, le), "MinidumpModuleCrashpadInfoLink.location.DataSize at 4");
    vassert!((v.location.rva as u32) == rd32(&b, 8, le), "MinidumpModuleCrashpadInfoLink.location.Rva at 8");
});

layout_harness!(k_layout_cp_info, h_layout_cp_info, md::MINIDUMP_CRASHPAD_INFO, 52, |v, b, le| {
    vassert!((v.version as u32) == rd32(&b, 0, le), "MinidumpCrashpadInfo.version at 0");
    vassert!((v.report_id.data1 as u32) == rd32(&b, 4, le), "MinidumpCrashpadInfo.report_id.data1 at 4");
    vassert!((v.report_id.data2 as u16) == rd16(&b, 8, le), "MinidumpCrashpadInfo.report_id.data2 at 8");
    vassert!((v.report_id.data3 as u16) == rd16(&b, 10, le), "MinidumpCrashpadInfo.report_id.data3 at 10");
    vassert!(v.report_id.data4[0] == b[12] && v.report_id.data4[7] == b[19], "MinidumpCrashpadInfo.report_id.data4 at 12..20");
    vassert!((v.client_id.data1 as u32) == rd32(&b, 20, le), "MinidumpCrashpadInfo.client_id.data1 at 20");
    vassert!((v.client_id.data2 as u16) == rd16(&b, 24, le), "MinidumpCrashpadInfo.client_id.data2 at 24");
    vassert!((v.client_id.data3 as u16) == rd16(&b, 26, le), "MinidumpCrashpadInfo.client_id.data3 at 26");
    vassert!(v.client_id.data4[0] == b[28] && v.client_id.data4[7] == b[35], "MinidumpCrashpadInfo.client_id.data4 at 28..36");
    vassert!((v.simple_annotations.data_size as u32) == rd32(&b, 36, le), "MinidumpCrashpadInfo.simple_annotations.DataSize at 36");
    vassert!((v.simple_annotations.rva as u32) == rd32(&b, 40, le), "MinidumpCrashpadInfo.simple_annotations.Rva at 40");
    vassert!((v.module_list.data_size as u32) == rd32(&b, 44, le), "MinidumpCrashpadInfo.module_list.DataSize at 44");
    vassert!((v.module_list.rva as u32) == rd32(&b, 48, le), "MinidumpCrashpadInfo.module_list.Rva at 48");
});

pub fn register(v: &mut Vec<(&'static str, fn(&mut TapeSrc))>) {
    v.push(("k_layout_header", h_layout_header::<TapeSrc>));
    v.push(("k_layout_directory", h_layout_directory::<TapeSrc>));
    v.push(("k_layout_memdesc", h_layout_memdesc::<TapeSrc>));
    v.push(("k_layout_memdesc64", h_layout_memdesc64::<TapeSrc>));
    v.push(("k_layout_thread", h_layout_thread::<TapeSrc>));
    v.push(("k_layout_thread_name", h_layout_thread_name::<TapeSrc>));
    v.push(("k_layout_memory_info", h_layout_memory_info::<TapeSrc>));
    v.push(("k_layout_unloaded_module", h_layout_unloaded_module::<TapeSrc>));
    v.push(("k_layout_module", h_layout_module::<TapeSrc>));
    v.push(("k_layout_exception_stream", h_layout_exception_stream::<TapeSrc>));
    v.push(("k_layout_handle_desc", h_layout_handle_desc::<TapeSrc>));
    v.push(("k_layout_handle_desc2", h_layout_handle_desc2::<TapeSrc>));
    v.push(("k_layout_system_info", h_layout_system_info::<TapeSrc>));
    v.push(("k_layout_breakpad_info", h_layout_breakpad_info::<TapeSrc>));
    v.push(("k_layout_misc_info", h_layout_misc_info::<TapeSrc>));
    v.push(("k_layout_location", h_layout_location::<TapeSrc>));
    v.push(("k_layout_cp_dict_entry", h_layout_cp_dict_entry::<TapeSrc>));
    v.push(("k_layout_cp_annotation", h_layout_cp_annotation::<TapeSrc>));
    v.push(("k_layout_cp_module_info", h_layout_cp_module_info::<TapeSrc>));
    v.push(("k_layout_cp_module_link", h_layout_cp_module_link::<TapeSrc>));
    v.push(("k_layout_cp_info", h_layout_cp_info::<TapeSrc>));
}
