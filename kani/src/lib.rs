//! Harness bodies for the Kani side of /verif (DESIGN.md 2.2).
//!
//! Every harness is an ordinary function generic over an input source `Src`.  Under Kani the
//! source is `kani::any()`; natively it is a byte tape, so a Kani counterexample
//! (`--concrete-playback=print`) is replayed by the *same* body against a normal debug build of
//! /repo.  Inputs have a fixed shape: the number and order of draws never depends on data.
#![allow(clippy::all)]
#![allow(unused)]

pub mod src;
pub use src::*;

pub mod c07_win;
pub mod c02_layout;
pub mod c09_numbers;
pub mod c17_paths;
pub mod c19_confidence;
pub mod c18_regs;
pub mod c18_gen;

/// (name, native entry) table used by the replay binary.
pub fn registry() -> Vec<(&'static str, fn(&mut TapeSrc))> {
    let mut v: Vec<(&'static str, fn(&mut TapeSrc))> = Vec::new();
    c07_win::register(&mut v);
    c18_gen::register(&mut v);
    c17_paths::register(&mut v);
    c02_layout::register(&mut v);
    c09_numbers::register(&mut v);
    c19_confidence::register(&mut v);
    v
}
