//! C08, bounded stand-ins on the real crates for the glue the Verus units abstract:
//!  * MinidumpUnloadedModuleList::{from_modules, modules_at_address}: returns exactly all entries
//!    whose range covers the address (3 modules, symbolic base/size over the whole u64/u32 domain);
//!  * the real parser `into_rangemap_safe` + range_map::RangeMap::get (3 entries): building never
//!    panics, every hit is sound, an isolated entry is found.
use crate::*;
use minidump::{MinidumpUnloadedModule, MinidumpUnloadedModuleList};
use range_map::Range;

pub const NMOD: usize = 3;

pub fn h_unloaded<S: Src>(s: &mut S) {
    let mut mods = Vec::new();
    let mut base = [0u64; NMOD];
    let mut size = [0u32; NMOD];
    let mut i = 0;
    while i < NMOD {
        base[i] = s.u64();
        size[i] = s.u32();
        mods.push(MinidumpUnloadedModule::new(base[i], size[i], ""));
        i += 1;
    }
    let addr = s.u64();
    let list = MinidumpUnloadedModuleList::from_modules(mods);
    // brute-force oracle: entry i covers addr iff size > 0, base+size fits u64, base <= addr <= base+size-1
    let mut want = [false; NMOD];
    let mut nwant = 0usize;
    let mut i = 0;
    while i < NMOD {
        let covers = size[i] != 0
            && base[i].checked_add(size[i] as u64).is_some()
            && base[i] <= addr
            && addr <= base[i] + size[i] as u64 - 1;
        want[i] = covers;
        if covers {
            nwant += 1;
        }
        i += 1;
    }
    let mut got = 0usize;
    for m in list.modules_at_address(addr) {
        let b = m.raw.base_of_image;
        let z = m.raw.size_of_image;
        vassert!(z != 0 && b <= addr && addr - b < z as u64, "unloaded-module lookup returns only entries whose range contains the address");
        got += 1;
    }
    vassert!(got == nwant, "unloaded-module lookup returns exactly all entries covering the address");
    vcover!(nwant == 2, "two covering unloaded modules reached");
    vcover!("unloaded lookup reached end");
}

pub fn h_rangemap_glue<S: Src>(s: &mut S) {
    let mut v: Vec<(Range<u64>, u8)> = Vec::new();
    let mut st = [0u64; NMOD];
    let mut en = [0u64; NMOD];
    let mut val = [0u8; NMOD];
    let mut i = 0;
    while i < NMOD {
        st[i] = s.u64();
        en[i] = s.u64();
        val[i] = s.u8();
        vassume!(st[i] <= en[i]);
        v.push((Range::new(st[i], en[i]), val[i]));
        i += 1;
    }
    let addr = s.u64();
    let m = breakpad_symbols::verif_hooks::into_rangemap_safe(v);
    match m.get(addr) {
        Some(&x) => {
            let mut ok = false;
            let mut i = 0;
            while i < NMOD {
                if val[i] == x && st[i] <= addr && addr <= en[i] {
                    ok = true;
                }
                i += 1;
            }
            vassert!(ok, "a lookup hit lies inside an input entry carrying the returned value");
            vcover!("rangemap hit reached");
        }
        None => {
            // completeness: an input entry that intersects no other entry is found
            let mut i = 0;
            while i < NMOD {
                let mut isolated = st[i] <= addr && addr <= en[i];
                let mut j = 0;
                while j < NMOD {
                    if j != i && st[j] <= en[i] && st[i] <= en[j] {
                        isolated = false;
                    }
                    j += 1;
                }
                vassert!(!isolated, "an entry that intersects no other entry is returned for every address inside it");
                i += 1;
            }
        }
    }
    vcover!("rangemap glue reached end");
}

harness!(reg, k_unloaded_lookup, h_unloaded, unwind = 6);
harness!(reg, k_rangemap_glue, h_rangemap_glue, unwind = 6);

pub fn register(v: &mut Vec<(&'static str, fn(&mut TapeSrc))>) {
    v.push(("k_unloaded_lookup", h_unloaded::<TapeSrc>));
    v.push(("k_rangemap_glue", h_rangemap_glue::<TapeSrc>));
}
