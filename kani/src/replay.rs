//! Native replay of a Kani counterexample: `replay <harness> <hex tape>`.
//! Runs the same harness body against the normal debug build of /repo (overflow checks on).
//! Exit status: 0 = ran to completion (no violation reproduced), 101 = panic (Rust default),
//! 3 = tape rejected by a harness precondition, 2 = usage error.
use std::panic;

fn main() {
    let args: Vec<String> = std::env::args().collect();
    if args.len() < 3 {
        eprintln!("usage: replay <harness> <hex tape>");
        std::process::exit(2);
    }
    let name = &args[1];
    let hex = args[2].replace(|c: char| !c.is_ascii_hexdigit(), "");
    let mut tape = Vec::new();
    let b = hex.as_bytes();
    let mut i = 0;
    while i + 1 < b.len() {
        let s = std::str::from_utf8(&b[i..i + 2]).unwrap();
        tape.push(u8::from_str_radix(s, 16).unwrap());
        i += 2;
    }
    let reg = vharness::registry();
    let f = match reg.iter().find(|(n, _)| n == name) {
        Some((_, f)) => *f,
        None => {
            eprintln!("unknown harness {}", name);
            std::process::exit(2);
        }
    };
    let mut src = vharness::TapeSrc::new(tape);
    let r = panic::catch_unwind(panic::AssertUnwindSafe(|| f(&mut src)));
    match r {
        Ok(()) => {
            println!("REPLAY-OK harness={} consumed={} underrun={}", name, src.pos, src.underrun);
            std::process::exit(0);
        }
        Err(e) => {
            let msg = if let Some(s) = e.downcast_ref::<String>() {
                s.clone()
            } else if let Some(s) = e.downcast_ref::<&str>() {
                s.to_string()
            } else {
                "<non-string panic>".to_string()
            };
            if msg.starts_with("VASSUME-REJECTED") {
                println!("REPLAY-REJECTED harness={} {}", name, msg);
                std::process::exit(3);
            }
            println!("REPLAY-PANIC harness={} message={}", name, msg);
            std::process::exit(101);
        }
    }
}
