//! C09: the numeric field parsers of the symbol-file grammar (hex_str::<u32>, hex_str::<u64>,
//! decimal_u32) on the real crate.  The slice is longer than every digit cap, so every digit-count
//! case is reached; the functions read at most `cap` bytes (asserted), so the slice length does not
//! bound the claim.
use crate::*;
use breakpad_symbols::verif_hooks as bp;

fn hexval(b: u8) -> Option<u64> {
    match b {
        b'0'..=b'9' => Some((b - b'0') as u64),
        b'a'..=b'f' => Some((b - b'a' + 10) as u64),
        b'A'..=b'F' => Some((b - b'A' + 10) as u64),
        _ => None,
    }
}

/// digit-string spec: value of the longest run of at most `cap` leading digits in `base`
fn spec_num(input: &[u8], cap: usize, base: u64) -> Option<(usize, u128)> {
    let mut k = 0;
    let mut v: u128 = 0;
    while k < input.len() && k < cap {
        let d = match hexval(input[k]) {
            Some(d) if d < base => d,
            _ => break,
        };
        v = v * (base as u128) + d as u128;
        k += 1;
    }
    if k == 0 { None } else { Some((k, v)) }
}

pub fn h_hex_u32<S: Src>(s: &mut S) {
    let b: [u8; 10] = s.bytes::<10>();
    let len = s.u8() as usize;
    vassume!(len <= 10);
    let input = &b[..len];
    let r = bp::hex_str_u32(input);
    match spec_num(input, 8, 16) {
        None => vassert!(r.is_err(), "hex_str::<u32>: no leading hex digit is an error"),
        Some((k, v)) => {
            vassert!(r == Ok((k, v as u32)), "hex_str::<u32>: consumes the leading run of at most 8 hex digits and returns its value");
            vcover!(k == 8, "hex u32 cap reached");
        }
    }
    vcover!("hex u32 reached end");
}

pub fn h_hex_u64<S: Src>(s: &mut S) {
    let b: [u8; 18] = s.bytes::<18>();
    let len = s.u8() as usize;
    vassume!(len <= 18);
    let input = &b[..len];
    let r = bp::hex_str_u64(input);
    match spec_num(input, 16, 16) {
        None => vassert!(r.is_err(), "hex_str::<u64>: no leading hex digit is an error"),
        Some((k, v)) => {
            vassert!(r == Ok((k, v as u64)), "hex_str::<u64>: consumes the leading run of at most 16 hex digits and returns its value");
            vcover!(k == 16, "hex u64 cap reached");
        }
    }
    vcover!("hex u64 reached end");
}

pub fn h_decimal_u32<S: Src>(s: &mut S) {
    let b: [u8; 12] = s.bytes::<12>();
    let len = s.u8() as usize;
    vassume!(len <= 12);
    let input = &b[..len];
    let r = bp::decimal_u32(input);
    match spec_num(input, 10, 10) {
        None => vassert!(r.is_err(), "decimal_u32: no leading digit is an error"),
        Some((k, v)) => {
            if v > u32::MAX as u128 {
                vassert!(r.is_err(), "decimal_u32: a value above u32::MAX is an error (TooLarge), not a wrap");
                vcover!("decimal too large reached");
            } else {
                vassert!(r == Ok((k, v as u32)), "decimal_u32: consumes the leading run of at most 10 digits and returns its value");
            }
        }
    }
    vcover!("decimal reached end");
}

harness!(reg, k_hex_u32, h_hex_u32, unwind = 20);
harness!(reg, k_hex_u64, h_hex_u64, unwind = 20);
harness!(reg, k_decimal_u32, h_decimal_u32, unwind = 20);

pub fn register(v: &mut Vec<(&'static str, fn(&mut TapeSrc))>) {
    v.push(("k_hex_u32", h_hex_u32::<TapeSrc>));
    v.push(("k_hex_u64", h_hex_u64::<TapeSrc>));
    v.push(("k_decimal_u32", h_decimal_u32::<TapeSrc>));
}
