//! C18: register access by name, per CPU context type and per register name (generated instances in
//! c18_gen.rs).  Spec source: property C18 and the CpuContext trait documentation.
use crate::*;
pub use minidump::{CpuContext, MinidumpContext, MinidumpContextValidity, MinidumpRawContext};

/// A fully symbolic plain-old-data value (every CONTEXT_* struct consists of integers and arrays of
/// integers, so every bit pattern is a valid value).
pub fn sym_pod<C, S: Src, const N: usize>(s: &mut S) -> C {
    assert!(N == core::mem::size_of::<C>());
    let a: [u8; N] = s.bytes::<N>();
    unsafe { core::ptr::read_unaligned(a.as_ptr() as *const C) }
}

pub fn streq(a: &str, b: &str) -> bool {
    a == b
}

/// One (context type, register name) instance.
pub fn reg_roundtrip<C, S, const N: usize>(s: &mut S, name: &'static str, canon: &'static [&'static str], v: C::Register)
where
    C: CpuContext + Clone,
    C::Register: Copy + PartialEq,
    S: Src,
{
    let mut ctx: C = sym_pod::<C, S, N>(s);
    let before = ctx.clone();
    let m = ctx.memoize_register(name);
    vassert!(m.is_some(), "memoize_register(name) is Some for every register name and alias");
    let m = m.unwrap();
    let mut is_canon = false;
    let mut k = 0;
    while k < canon.len() {
        if streq(canon[k], m) {
            is_canon = true;
        }
        k += 1;
    }
    vassert!(is_canon, "memoize_register yields a name listed in REGISTERS");
    vassert!(ctx.set_register(name, v).is_some(), "set_register(name, v) is Some for a register name or alias");
    vassert!(ctx.get_register_always(name) == v, "get_register_always(name) reads back the value written by set_register(name, _)");
    vassert!(ctx.get_register_always(m) == v, "an alias and its canonical name denote the same storage");
    vassert!(ctx.get_register(name, &MinidumpContextValidity::All) == Some(v), "get_register(name, All) == Some(value)");
    // frame condition: every other canonical register keeps its value
    let mut k = 0;
    while k < canon.len() {
        let other = canon[k];
        if !streq(other, m) {
            vassert!(ctx.get_register_always(other) == before.get_register_always(other),
                     "set_register changes no other named register");
        }
        k += 1;
    }
    vcover!("register round trip reached end");
}

#[macro_export]
macro_rules! reg_harness {
    ($k:ident, $h:ident, $ty:ty, $regty:ty, $name:expr, $canon:expr) => {
        pub fn $h<S: Src>(s: &mut S) {
            let v: $regty = $crate::c18_regs::sym_pod::<$regty, S, { core::mem::size_of::<$regty>() }>(s);
            $crate::c18_regs::reg_roundtrip::<$ty, S, { core::mem::size_of::<$ty>() }>(s, $name, $canon, v);
        }
        #[cfg(kani)]
        #[kani::proof]
        #[kani::unwind(48)]
        fn $k() {
            $h(&mut $crate::KaniSrc);
        }
    };
}

#[macro_export]
macro_rules! type_harness {
    ($k:ident, $h:ident, $ty:ty, $regty:ty, $variant:ident, $canon:expr) => {
        pub fn $h<S: Src>(s: &mut S) {
            use $crate::c18_regs::*;
            let ctx: $ty = sym_pod::<$ty, S, { core::mem::size_of::<$ty>() }>(s);
            let regs = <$ty as CpuContext>::REGISTERS;
            vassert!(regs.len() == $canon.len(), "HARNESS-STALE: REGISTERS differs from the list the per-name proofs were generated from (rerun bin/gen_c18)");
            let mut k = 0;
            while k < regs.len() {
                vassert!(streq(regs[k], $canon[k]), "HARNESS-STALE: REGISTERS differs from the list the per-name proofs were generated from (rerun bin/gen_c18)");
                let m = ctx.memoize_register(regs[k]);
                vassert!(m.is_some() && streq(m.unwrap(), regs[k]), "every REGISTERS entry memoizes to itself");
                k += 1;
            }
            let sp = ctx.get_register_always(ctx.stack_pointer_register_name()) as u64;
            let ip = ctx.get_register_always(ctx.instruction_pointer_register_name()) as u64;
            let mctx = MinidumpContext { raw: MinidumpRawContext::$variant(ctx.clone()), valid: MinidumpContextValidity::All };
            vassert!(mctx.get_stack_pointer() == sp, "stack_pointer_register_name agrees with MinidumpContext::get_stack_pointer");
            vassert!(mctx.get_instruction_pointer() == ip, "instruction_pointer_register_name agrees with MinidumpContext::get_instruction_pointer");
            vassert!(mctx.register_size() == core::mem::size_of::<$regty>(), "register_size is the width of the context's Register type");
            let g = mctx.general_purpose_registers();
            vassert!(g.len() == regs.len(), "general_purpose_registers lists exactly REGISTERS");
            let mut k = 0;
            while k < regs.len() {
                vassert!(streq(g[k], regs[k]), "general_purpose_registers lists exactly REGISTERS");
                vassert!(mctx.get_register(regs[k]) == Some(ctx.get_register_always(regs[k]) as u64), "MinidumpContext::get_register dispatches to the context (validity All)");
                k += 1;
            }
            vcover!("type harness reached end");
        }
        #[cfg(kani)]
        #[kani::proof]
        #[kani::unwind(48)]
        fn $k() {
            $h(&mut $crate::KaniSrc);
        }
    };
}

#[macro_export]
macro_rules! unknown_harness {
    ($k:ident, $h:ident, $ty:ty, $regty:ty) => {
        pub fn $h<S: Src>(s: &mut S) {
            use $crate::c18_regs::*;
            let mut ctx: $ty = sym_pod::<$ty, S, { core::mem::size_of::<$ty>() }>(s);
            let len = s.u8();
            let b: [u8; 2] = s.bytes::<2>();
            vassume!(len <= 2);
            vassume!(b[0] < 128 && b[1] < 128);
            let name = core::str::from_utf8(&b[..len as usize]).unwrap();
            // "unknown" = set_register rejects it (the documented way to ask whether a name exists)
            let v: $regty = 0;
            let known = ctx.clone().set_register(name, v).is_some();
            if !known {
                vassert!(ctx.memoize_register(name).is_none(), "an unknown name does not memoize");
                vassert!(ctx.get_register(name, &MinidumpContextValidity::All).is_none(), "reading an unknown name reports absence instead of panicking");
                vcover!("unknown name reached");
            } else {
                vassert!(ctx.memoize_register(name).is_some(), "every name set_register accepts is memoizable (so get_register never reaches unreachable!)");
            }
            vcover!("unknown harness reached end");
        }
        #[cfg(kani)]
        #[kani::proof]
        #[kani::unwind(40)]
        fn $k() {
            $h(&mut $crate::KaniSrc);
        }
    };
}
